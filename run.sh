#!/bin/bash
# run.sh <ID> <quick|thorough> : rebuild the check binaries from /repo's working tree, run one check.
# exit 0 = held, 1 = VIOLATION, 2 = infrastructure error (never a pass)
set -u
cd "$(dirname "$0")"
VERIF=$(pwd)
export GOFLAGS=-mod=mod GOPROXY=off GOSUMDB=off GOTOOLCHAIN=local
export GOCACHE=${VERIF_GOCACHE:-$VERIF/.cache/go-build}
export VERIF_DIR=$VERIF
mkdir -p "$VERIF/.cache/bin" "$VERIF/evidence"
ID=$1; TIER=${2:-quick}
if [ "$ID" = replay ]; then exec "$VERIF/.cache/bin/vcheck" replay "$2"; fi
build() {
  ( cd "$VERIF/engine" && cp /repo/go.sum go.sum && go build -o "$VERIF/.cache/bin/vcheck" ./cmd/vcheck ) || { echo "BUILD-ERROR property=$ID"; exit 2; }
  ( cd /repo && go build -o "$VERIF/.cache/bin/sysl" ./cmd/sysl ) || { echo "BUILD-ERROR(sysl) property=$ID"; exit 2; }
}
if [ "${VERIF_NOBUILD:-}" != 1 ]; then
  # serialise builds (several checks may be started at once)
  ( flock 9; build ) 9>"$VERIF/.cache/build.lock" || exit 2
  if [ -x "$VERIF/buildov.sh" ]; then
    case "$ID" in C05|C06|C07|C12|C14|C15|C19) ( flock 9; "$VERIF/buildov.sh" ) 9>"$VERIF/.cache/buildov.lock" || { echo "BUILD-ERROR(overlay) property=$ID"; exit 2; } ;; esac
  fi
fi
# the thorough tier stops dispatching new cases after 40 minutes (cases are enumerated simplest first): it then
# reports exhaustive=false with the number of cases completed, and still exits 0 / 1 on what it explored
if [ "$TIER" = thorough ]; then export VERIF_DEADLINE_S=${VERIF_DEADLINE_S:-2400}; fi
exec "$VERIF/.cache/bin/vcheck" "$ID" --tier "$TIER"
