#!/bin/bash
# Generates the overlay from /repo's working tree and builds the hooked binary vcheck-ov.
set -u
cd "$(dirname "$0")"
VERIF=$(pwd)
export GOFLAGS=-mod=mod GOPROXY=off GOSUMDB=off GOTOOLCHAIN=local
export GOCACHE=${VERIF_GOCACHE:-$VERIF/.cache/go-build}
mkdir -p "$VERIF/.cache/bin" "$VERIF/.cache/overlay"
cd "$VERIF/engine" && cp /repo/go.sum go.sum
go build -o "$VERIF/.cache/bin/mkoverlay" ./cmd/mkoverlay || exit 2
"$VERIF/.cache/bin/mkoverlay" /repo "$VERIF" "$VERIF/.cache/overlay" > "$VERIF/.cache/overlay/log" 2>&1 || { cat "$VERIF/.cache/overlay/log"; exit 2; }
go build -tags verifov -overlay "$VERIF/.cache/overlay/overlay.json" -o "$VERIF/.cache/bin/vcheck-ov" ./cmd/vcheck || exit 2
if [ "${VERIF_RACE:-1}" = 1 ]; then
  CGO_ENABLED=1 go build -race -tags verifov -overlay "$VERIF/.cache/overlay/overlay.json" -o "$VERIF/.cache/bin/vrace" ./cmd/vrace || exit 2
fi
