#!/usr/bin/env python3
"""Regenerates MANIFEST.json from the table below (kept in one place so it is always valid)."""
import json, sys
ALL = ["C%02d" % i for i in range(1, 21)]
# id -> (level, technique, level text, level note, design ref)
CHECKS = {
 "C01": ("exploration",
         "bounded-exhaustive input enumeration against the real parser in crash-isolating worker processes (odd-mode construct product, all single edits of seeds, import closures, all short byte strings) plus CLI replay of class representatives",
         "Every input of four finite spaces (S1 construct product with slots filled regardless of sense, S2 every single token/line/truncation edit of 18 seeds, S3 import closures, S4 all byte strings up to length 3 (thorough 4) over 27 bytes) is compiled by the real parse.Parser in worker subprocesses; the oracle is model-xor-error, no panic on any goroutine, no process exit, termination. Representatives go through the built sysl binary (exit 0 with output, or non-zero with a message, no Go crash text).",
         "inputs outside the enumerated spaces are not covered; 60 s per compile before non-termination is declared",
         "DESIGN.md §4 C01"),
 "C02": ("exploration",
         "bounded-exhaustive generation from an abstract specification language, rendered to text, compiled by the real parser, and compared with an independently computed intended summary (reference model) via a projection of the protobuf model",
         "Six completely enumerated sub-spaces (field descriptors x positions, ordered pairs of member constructs, statement forests and width sweeps, REST trees, attribute forms x attachable elements and slot pairs, value boundaries), each under rotating (thorough: all) layouts. The projection of the compiled module must equal, line for line, the summary computed from the abstract description alone: nothing missing, nothing extra.",
         "the summary follows the language's documented representation conventions (listed in evidence.assumptions); constructs outside the alphabets are not covered",
         "DESIGN.md §3.5, §4 C02"),
 "C03": ("exploration",
         "metamorphic bounded-exhaustive exploration: every seed x every global re-indentation x a blank line / comment inserted at every position (deviation-bounded), compared by proto equality modulo locations on the real parser",
         "Seeds are every compiling .sysl file of the repository plus generated seeds; each is recompiled under indent scaling (x2, x3, exact /2, /4), four tab rules, a blank line before every line, and four comment variants (text or bare '#', at the line's indentation or column 0) before every declaration line; quick applies one local deviation at every position of small seeds, thorough the whole corpus and pairs on small seeds. Acceptance must be preserved and the models equal once source contexts are cleared.",
         "comments are only inserted at declaration/statement boundaries; imports are read untransformed; lines inside multi-line string literals are not re-indented",
         "DESIGN.md §4 C03"),
 "C04": ("model_checking",
         "explicit-state exploration of the tree listener fed application blocks: all set partitions of a member alphabet into blocks x block orders x file placements, differential oracle against the joined declaration (proto equality modulo locations)",
         "The joined declaration is first checked against its intended summary; then every partition of 7 (thorough 9) members into <=3 (4) blocks, every order of the re-opening blocks and four placements in files (one file, chain of imports, star, star with reversed import statements) is compiled by the real parser and must give the same model as the joined declaration, and one application location per block.",
         "members are atomic; header block first; key-column and mixin lists compared in name order (their model order is the declaration order of the blocks themselves)",
         "DESIGN.md §4 C04"),
 "C05": ("model_checking",
         "stateless DFS over all schedules of the real retrieval code under a cooperative scheduler (sync.Mutex/errgroup swapped by build overlay, reader is the harness's), global-state pruning; reference closure model",
         "For every import graph in the bound (all graphs on <=3 files with ordered import lists, named 4- and 5-file shapes, all depth limits, spelling variants of the same file) every schedule of the concurrent retrievals is executed on the real parse.Parser; each complete execution must read each included file once, include exactly the files nearer than the limit, in the text-determined order, with one outcome over all schedules; no deadlock or livelock. A full compile checks the merge order and once-only contribution in the model.",
         "sequentially consistent interleavings at the hooked points; state key = all thread positions/results (argued to determine the future); Wait/start treated as invisible transitions; remote retrieval not exercised",
         "DESIGN.md §3.2, §4 C05"),
 "C06": ("fault_enumeration",
         "same scheduler/DFS harness as C05 with a fault menu at every file (read error, truncation, bad import line, bad body, malformed foreign files): every fault set up to the bound x every schedule",
         "For 12 graph shapes (thorough: all graphs on <=3 files and named 4-file shapes) x every non-empty failing set of size <=2 (3) x every fault kind x every schedule, the real compile must return no model and an error naming a failing file, and terminate. Foreign-format faults (yaml/json/pb/textpb/pb.json/proto/xml) are injected in three graph positions.",
         "as C05; every bad content is one the compiler rejects when compiled alone",
         "DESIGN.md §4 C06"),
 "C07": ("model_checking",
         "preemption-bounded stateless DFS over schedules of 2-3 concurrent real compilations (points at every token fetch, lexer-state create/delete, mutex, read); exhaustive map-iteration-start enumeration via a runtime/map.go seam; all compile sequences up to length 3; separate free-running -race monitor",
         "All pairs (thorough: also triples) of 7 sources compiled concurrently on the real parser under the cooperative scheduler, every schedule with <=1 preemption (<=2 on small pairs; thorough <=2 everywhere): each result must equal the solo result byte-for-byte (textpb+JSON) and the global lexer-state registry must be empty afterwards. Every source is compiled under all 17 map-iteration starts (bytes identical) and in every sequence up to length 3 in one process. A -race build of the same bodies runs 384 free-running compilations as a monitor.",
         "interleavings only at hooked points and within the preemption bound; no state pruning (ANTLR state not observable); data races between points seen only by the -race monitor; map-order exhaustive for maps <= 8 entries",
         "DESIGN.md §3.2-3.3, §4 C07"),
 "C08": ("exploration",
         "bounded-exhaustive generation with a position-recording renderer; every located element of the compiled model compared with the recorded (file, line, column) of its declaration",
         "The C02 specification families under six layouts and the C04 multi-block / multi-file splits are compiled; for every application, type, field, endpoint, statement and annotation the model's source_contexts must name the declaring file and the zero-based position of the first character of each declaration, one per declaration in order, with end >= start and start inside the file.",
         "start convention per element kind as listed in evidence.assumptions; implied elements and inline attribute entries are exempt",
         "DESIGN.md §4 C08"),
 "C09": ("exploration",
         "bounded-exhaustive model set (corpus + generated families + complete string sweep over a 12-token alphabet) x all encodings x decode / re-import, proto equality oracle on the real encoders, decoders and import path",
         "Every model is encoded with pbutil in binary, JSON and text form, indented and compact, decoded again and compared with proto.Equal; JSON must be well-formed; a root file that only imports the encoded file is compiled by the real parser and its applications compared (locations and import list ignored). The string sweep places every sequence of <=2 (thorough 3) tokens (quotes, backslashes, '\": ', double spaces, newlines, tabs, braces...) in name parts, long names, attribute values, array elements and multi-line annotations.",
         "library-level round trip on compiler-produced models",
         "DESIGN.md §4 C09"),
 "C10": ("exploration",
         "bounded-exhaustive enumeration of a typed expression grammar (depth <= 2), let-sequences and shadowing/nesting probes, evaluated by the real eval.EvaluateView and compared with an independent reference interpreter with value semantics",
         "Every well-typed expression of depth <=2 over the evaluator's own operator table and a literal pool, every let-sequence up to length 3 (thorough 4) whose right-hand sides reuse all earlier names (each binding read back at the end), scope-variable shadowing by where/flatten/transforms, nested transforms over lists, sets and maps with each result type, and calls to other views are evaluated and must equal the reference interpreter's value; a second evaluation must agree.",
         "only operator/kind combinations in the evaluator's dispatch tables; evaluation failure is os.Exit in the library (observed as worker death)",
         "DESIGN.md §4 C10"),
 "C11": ("exploration",
         "bounded-exhaustive generation of foreign documents from a description language (OpenAPI 2/3, XSD, SQL DDL), imported by the real importers, compiled back by the real parser and compared with the description; repeated import and import-statement path",
         "OpenAPI 2 and 3: every property descriptor x required/optional x name pool alone and in all kind pairs, every subset of a required list over four properties, endpoints over 4 path shapes x 5 methods x parameter locations x response shapes (OpenAPI 3 packed into few documents because its importer costs seconds per document); XSD: element type x occurrence bounds x second element, attributes; SQL (spanner): tables x 9 column types x NOT NULL x single/composite keys x foreign keys. Import must succeed, its text must compile, every schema/type/table must appear with every property/column (kind, optionality, array-ness, reference target, key-ness), every operation with its parameters by location and its responses; a second import must give identical text; the same document through 'import x.yaml as Ns :: App' must compile.",
         "supported subset = what the importers' fixtures use; properties matched through the json_tag annotation",
         "DESIGN.md §4 C11"),
 "C13": ("exploration",
         "bounded-exhaustive model enumeration (every endpoint body of an alphabet x call targets over all endpoints = all call graphs) through the real generator; PlantUML sequence reader + reference call-tree walk as oracle",
         "For every model of 3 (thorough also 4) endpoints in several application distributions, every start endpoint and every option (plain, group-by attribute, each other endpoint blackboxed) the real GenerateSequenceDiag must return a diagram whose participants are declared exactly once, whose activations balance and never go negative, in which a participant sends a call only while active and every block is closed, and whose call arrows equal the reference walk (source order, a call in progress is shown but not expanded, a blackboxed endpoint is not expanded). 7.4 million diagrams in the quick tier.",
         "plain applications only (no ~human/~cron), simple endpoints, existing targets",
         "DESIGN.md §4 C13"),
 "C14": ("exploration",
         "bounded-exhaustive enumeration of call multigraphs x project selections x exclude/passthrough subsets x views through the real GenerateIntegrations / IntsBuilder; soundness and completeness of arrows against the call multigraph",
         "All 64 call graphs on 3 applications (thorough: all 4096 on 4) with calls rotating through every statement kind, each with every human mark, every listed subset, every exclude subset and every passthrough subset (cyclic pass-through chains included), in plain, clustered and EPA views: generation must terminate; every DepsOut entry and every drawn arrow must correspond to a call and touch no excluded application; every call from a listed application to a different, non-excluded, non-human application through a non-hidden endpoint must be drawn.",
         "arrows read from component-diagram text and IntsBuilder.DepsOut; EPA view checked for termination and DepsOut only",
         "DESIGN.md §4 C14"),
 "C15": ("exploration",
         "bounded-exhaustive data-model enumeration through the real generator; PlantUML class reader compared with the model's type graph (classes, fields, relationship multiset)",
         "Every model of the alphabet (owner type as tuple or table with two fields over 13 descriptors, second type of every kind, cross-application type with distinct / colliding names, dotted nested type) is rendered as whole-model and per-application diagram: exactly one class per covered type with a unique alias, every field listed with a matching type marker, exactly one relationship line per referring field to a drawn type and none otherwise. Map iteration order is pinned (C19 varies it).",
         "coverage = tuples, tables, primitive aliases, enums; self references not asserted; field types compared by kind marker",
         "DESIGN.md §4 C15"),
 "C16": ("model_checking",
         "explicit-state BFS over relational schemas (states) and edit operations (transitions) with canonical-state de-duplication; the real create/delta generators run on every state, edge and 2-chain; a reference DDL interpreter executes the emitted SQL into a catalog (differential oracle old+delta == new)",
         "States are schemas of <=2 (thorough 3) base tables expanded by 17 kinds of edit to depth 1-2; for every state the creation script must execute (every table once, after everything it references) and define exactly the schema's columns, types, keys and foreign keys; for every edge, executing the old creation script and then the delta must leave every table of the new version exactly as the new creation script defines it, the identity delta must be empty, and 2-chains whose steps are individually sound must compose. Tables spread over two files (also starting on the same line) are checked for the creation script.",
         "reference interpreter implements the emitted DDL subset with PostgreSQL semantics; unknown statements are an ORACLE-GAP; column order not compared, keys compared as sets",
         "DESIGN.md §4 C16"),
 "C17": ("exploration",
         "bounded-exhaustive model set (corpus, generated families, return-payload sweep, complete deep statement trees) through the real relmod.Normalize, compared row-for-row (as multisets) with an independent census of the module; repeated run compared",
         "For every model the relational schema must either be refused with an error or contain exactly the census rows: applications, mixins, endpoints, events, parameters (index, location, type, optionality), statements with their position path, types, table keys, fields (type, optionality, constraints), enums, aliases, views, annotations and tags of every element; a second run must give the same relations.",
         "relmod's documented representation choices are part of the census (see evidence.assumptions); arr.ai has a single empty value, so an empty string and an empty array are one value",
         "DESIGN.md §4 C17"),
 "C18": ("model_checking",
         "explicit-state product of a reference path automaton with the real ChrootFs over all path strings up to the segment bound; loader runs on a recording filesystem",
         "Every path string over a 6-segment alphabet up to 5 (thorough 7) segments x absolute/relative x trailing slash x 7 root spellings x every wrapper operation (rename arguments independently) is pushed through the real syslutil.ChrootFs onto a recording filesystem; safety (nothing outside the root reaches the filesystem) and liveness (never-leaving spellings are served at root+canonical path) are checked on every transition. The real loader is also run on every (module spelling, import spelling) pair.",
         "lexical confinement (no symlinks), unix separators; alphabet and length bound as stated in evidence.bounds",
         "DESIGN.md §4 C18"),
}
NOT_YET = "check not built yet in this round (planned; see DESIGN.md §4)"
def main():
    checks = []
    for pid in ALL:
        if pid not in CHECKS: continue
        level, tech, text, note, ref = CHECKS[pid]
        checks.append({
            "property_id": pid,
            "quick_cmd": "./run.sh %s quick" % pid,
            "thorough_cmd": "./run.sh %s thorough" % pid,
            "evidence_file": "/verif/evidence/%s.json" % pid,
            "replay_cmd_template": "./run.sh replay {path}",
            "engine": "vcheck",
            "level_claimed": {"category": level, "text": text, "design_ref": ref},
            "level_note": note,
            "technique": tech,
        })
    m = {
        "version": 1,
        "setup_cmd": "./setup.sh",
        "hooks": {
            "guard": "verif (build overlay generated at check time; no guarded source in /repo)",
            "enable": "go build -overlay .cache/overlay/overlay.json (generated by buildov.sh from /repo's working tree)",
            "baseline_off_cmd": "cd /repo && GOFLAGS=-mod=mod go test -vet=off -count=1 -timeout 25m ./...",
            "source_commits": [],
            "add_only": True,
        },
        "engines": [{"name": "vcheck", "path": "/verif/engine", "serves_properties": sorted(CHECKS), "kind_free_text": "hand-written bounded-exhaustive explorer: case enumeration + worker subprocesses on the real code, cooperative scheduler/DFS for schedules, map-iteration seam for generator determinism"}],
        "checks": checks,
        "not_applicable": [{"property_id": p, "reason": NOT_YET} for p in ALL if p not in CHECKS],
        "notes": "exit 0 held / 1 VIOLATION / 2 infrastructure error. known_findings.json lists recorded defects and fix: commits.",
    }
    json.dump(m, open("MANIFEST.json", "w"), indent=1)
    try:
        import jsonschema
        jsonschema.validate(m, json.load(open("/root/.vp/MANIFEST.schema.json")))
        print("MANIFEST valid,", len(checks), "checks")
    except ImportError:
        print("written (jsonschema not available)")
main()
