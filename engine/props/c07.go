//go:build verifov

package props

// C07 — compilation is deterministic and safe to run concurrently in one process.
//  (a) "pair"/"triple": k concurrent full compilations under the cooperative scheduler with
//      scheduling points at every token fetch, lexer-state creation/deletion, mutex acquisition
//      and file read; all schedules with at most B preemptions; every thread's serialised
//      result must equal its solo result; the lexer-state registry must be empty at the end.
//  (b) "mapord": every source under every map-iteration start; text and JSON bytes identical.
//  (c) "seq": all sequences of compilations up to length 3 in one process.
//  (d) "race": free-running -race monitor of the same bodies (separate binary), not deciding.

import (
	"bytes"
	"encoding/json"
	"fmt"
	"io"
	"os"
	"os/exec"
	"path/filepath"
	"sort"
	"strings"
	"time"
	_ "unsafe"

	"github.com/sirupsen/logrus"
	"github.com/spf13/afero"

	parser "github.com/anz-bank/sysl/pkg/grammar"
	"github.com/anz-bank/sysl/pkg/parse"
	"github.com/anz-bank/sysl/pkg/pbutil"
	"github.com/anz-bank/sysl/pkg/sysl"
	"github.com/anz-bank/sysl/pkg/verifrt"
	"verif/engine/core"
	"verif/engine/sched"
)

//go:linkname verifMapControl runtime.verifMapControl
func verifMapControl(on bool, seed, k uintptr) (maxCount int, iters int)

type c07 struct{}

func init() {
	core.Register(c07{})
	core.PinMapOrder = func() { verifMapControl(true, 0, 0) }
}

func (c07) ID() string     { return "C07" }
func (c07) Level() string  { return "model_checking" }
func (c07) Binary() string { return "ov" }
func (c07) Rule() string {
	return "(a) all pairs (thorough: triples) of sources from a 7-element alphabet compiled concurrently on the real parser under the cooperative scheduler, every schedule with at most B preemptions over token-fetch / lexer-state / mutex / read points; (b) every source x 17 map-iteration starts; (c) all compile sequences up to length 3 in one process. Non-trivial = an exploration with >1 schedule, a map-order run that iterated at least one map with >=2 entries, or a sequence of length >=2; distinct by case"
}
func (c07) Assumptions() []string {
	return []string{
		"interleavings are explored at the hooked points only, up to the stated preemption bound; ANTLR-internal state is not observable so no state pruning is used",
		"weak-memory effects and unsynchronised accesses between points are only watched by the free-running -race monitor (part d), which sees the executions it happens to get",
		"map-order exploration is exhaustive for maps of at most 8 entries (single bucket); evidence reports the largest map iterated",
	}
}
func (c07) CaseTimeout() time.Duration { return 20 * time.Minute }
func (c07) InitWorker() {
	logrus.SetOutput(io.Discard)
	// own the map iteration order in every part (part b varies it; all other parts pin it)
	verifMapControl(true, 0, 0)
}

var c07Sources = []filesCase{
	{Root: "s0.sysl", Files: map[string]string{"s0.sysl": "A:\n  Ep:\n    B <- X\n    return ok\nB:\n  X:\n    ...\n"}},
	{Root: "s1.sysl", Files: map[string]string{"s1.sysl": "T [~t]:\n\t!type U:\n\t\tf <: int\n\t\tg <: set of string\n"}},
	{Root: "s2.sysl", Files: map[string]string{"s2.sysl": "V:\n    !view v(p <: int) -> int:\n        p -> (:\n            x = p + 1\n        )\n"}},
	{Root: "s3.sysl", Files: map[string]string{"s3.sysl": "R:\n    /a/{id <: int}:\n        GET ?q=int&r=string:\n            | text line\n            some text\n"}},
	{Root: "s4.sysl", Files: map[string]string{"s4.sysl": "import d1\nimport d2\nM:\n    Ep:\n        D <- E\n", "d1.sysl": "import d2\nD:\n    E:\n        ...\n", "d2.sysl": "D2:\n    !type T:\n        f <: int\n"}},
	{Root: "s5.sysl", Files: map[string]string{"s5.sysl": "MA:\n    -|> MB\n    Own:\n        MB <- Sh\nMB:\n    -|> MC\n    Sh:\n        ...\nMC:\n    Deep:\n        ...\n    !type T%2EU:\n        f <: T\n    !type T%2EV:\n        g <: int\n    !type T:\n        h <: int\nMD:\n    .. * <- *:\n        Own2 [~c1]\n        MB <- Sh [k=\"v\"]\n    Own2:\n        MB <- Sh\n"}},
	{Root: "s6.sysl", Files: map[string]string{"s6.sysl": "P [a=\"1\", b=\"2\", ~t1, ~t2]:\n    @c = \"3\"\n    @d = [\"x\", \"y\"]\n    E1 [x=\"1\", y=\"2\"]:\n        ...\n    E2:\n        ...\n    E3:\n        ...\n    !enum En:\n        A: 1\n        B: 2\n        C: 3\nQ:\n    <-> Ev:\n        ...\nSub:\n    Q -> Ev:\n        ...\n"}},
	// sources beyond c07Core take part in map-order cases, in all sequences of two and in a few concurrent pairs:
	// s7 two views with anonymous (untyped nested) transforms; s8/s9 rejected inputs that leave brackets
	// open / closed once too often; s10 a victim whose reading depends on clean lexer state
	{Root: "s7.sysl", Files: map[string]string{"s7.sysl": "A:\n    !type T:\n        f <: int\n    !view v1(p <: int) -> T:\n        p -> <T> (:\n            b = p -> (:\n                c = p -> <T> (:\n                    f = 1\n                )\n            )\n        )\n    !view v2(p <: int) -> T:\n        p -> <T> (:\n            b = p -> (:\n                d = p -> <T> (:\n                    f = 2\n                )\n            )\n        )\n    !view v3(p <: int) -> T:\n        p -> <T> (:\n            let l = p + 1\n            f = l\n        )\n"}},
	{Root: "s8.sysl", Files: map[string]string{"s8.sysl": "Shop [~db:\n    Ep:\n        ...\n"}},
	{Root: "s9.sysl", Files: map[string]string{"s9.sysl": "Shop ]]:\n    Ep [a=[\"x\"]]]:\n        ...\n"}},
	{Root: "s10.sysl", Files: map[string]string{"s10.sysl": "Some App:\n    !type T:\n        id <: int\n        s <: string\n        d <: datetime\n    Ep (p <: int):\n        | text line [x]\n        return ok <: string\n"}},
	{Root: "s11.sysl", Files: map[string]string{"s11.sysl": "import i1\nimport i2\nimport i3\nimport i4\nRoot:\n    Ep:\n        I1 <- E\n", "i1.sysl": "I1:\n    E:\n        ...\n", "i2.sysl": "I2:\n    E:\n        ...\n", "i3.sysl": "I3:\n    E:\n        ...\n", "i4.sysl": "I4:\n    E:\n        ...\n"}},
	{Root: "s12.sysl", Files: map[string]string{"s12.sysl": "import api.yaml as Ping\nUser:\n    Ep:\n        Ping <- GET /ping\n", "api.yaml": "swagger: \"2.0\"\ninfo:\n  title: Ping\n  version: \"1\"\nproduces:\n  - text/plain\npaths:\n  /ping:\n    get:\n      responses:\n        200:\n          description: ok\n          schema:\n            type: string\n  /pong:\n    get:\n      responses:\n        200:\n          description: ok\n          schema:\n            type: object\n            properties:\n              v:\n                type: string\n"}},
}

// c07Core: the sources that take part in every combination (s0..s6 by file name)
const c07Core = 7

type c07Case struct {
	Srcs  []int `json:"srcs"`
	Bound int   `json:"bound"`
}

func (c07) Bounds(tier string) map[string]interface{} {
	if tier == "thorough" {
		return map[string]interface{}{"sources": len(c07Sources), "pairs_preemptions": 1, "pairs_of_4_smallest_preemptions": 2, "triples_of_4_smallest_preemptions": 1, "seq_len": 3, "map_starts": 17}
	}
	return map[string]interface{}{"sources": len(c07Sources), "pairs_preemptions": 1, "pairs_small_preemptions": 2, "seq_len": 3, "map_starts": 17}
}

func (c07) Cases(tier string, emit func(string, interface{})) {
	n := c07Core
	for i := 0; i < len(c07Sources); i++ {
		if i == 8 || i == 9 {
			continue // rejected inputs have no model to serialise
		}
		emit("mapord", c07Case{Srcs: []int{i}})
	}
	// sequences
	for i := 0; i < len(c07Sources); i++ {
		for j := 0; j < len(c07Sources); j++ {
			emit("seq", c07Case{Srcs: []int{i, j}})
			// (two compilations on ONE Parser object are not generated: the Parser keeps per-compilation
			// state - LetTypes, Messages - and every caller in the repository makes one per compilation;
			// demanding re-usability is more than the property states)
		}
	}
	for i := 0; i < n; i++ {
		for j := 0; j < n; j++ {
			for k := 0; k < n; k++ {
				if tier != "thorough" && !(i == k || j == k || i == j) {
					continue
				}
				emit("seq", c07Case{Srcs: []int{i, j, k}})
			}
		}
	}
	// concurrent pairs
	for i := 0; i < n; i++ {
		for j := i; j < n; j++ {
			emit("pair", c07Case{Srcs: []int{i, j}, Bound: 1})
		}
	}
	if tier != "thorough" {
		// bound 2 on the three smallest sources
		for _, p := range [][]int{{0, 1}, {1, 2}, {0, 0}, {1, 1}, {0, 2}} {
			emit("pair", c07Case{Srcs: p, Bound: 2})
		}
	} else {
		// bound 2 on every pair of the four smallest sources, triples of the four smallest with bound 1
		// (bound 2 on the 21 pairs of the six smallest did not finish in 50 minutes: measured twice)
		for i := 0; i < 4; i++ {
			for j := i; j < 4; j++ {
				emit("pair", c07Case{Srcs: []int{i, j}, Bound: 2})
			}
		}
		for i := 0; i < 4; i++ {
			for j := i; j < 4; j++ {
				for k := j; k < 4; k++ {
					emit("pair", c07Case{Srcs: []int{i, j, k}, Bound: 1})
				}
			}
		}
	}
	// a rejected input next to a victim, and the anonymous-type source next to itself
	for _, p := range [][]int{{8, 10}, {9, 10}, {8, 1}, {7, 7}, {7, 2}} {
		emit("pair", c07Case{Srcs: p, Bound: 1})
	}
	emit("race", c07Case{})
	// cold start, five fresh processes (a first-use race needs a process that has compiled nothing yet)
	for i := 1; i <= 5; i++ {
		emit("race", c07Case{Bound: i, Srcs: []int{-1}})
	}
}

func serialise(m *sysl.Module) (string, error) {
	var t, j bytes.Buffer
	if err := pbutil.FTextPB(&t, m); err != nil {
		return "", err
	}
	if err := pbutil.FJSONPB(&j, m); err != nil {
		return "", err
	}
	return t.String() + "\n----\n" + j.String(), nil
}

func compileSer(fc filesCase) string { return compileSerWith(parse.NewParser(), fc) }

func compileSerWith(p *parse.Parser, fc filesCase) string {
	fs := afero.NewMemMapFs()
	names := make([]string, 0, len(fc.Files))
	for n := range fc.Files {
		names = append(names, n)
	}
	sort.Strings(names)
	for _, n := range names {
		_ = afero.WriteFile(fs, n, []byte(fc.Files[n]), 0o644)
	}
	m, err := p.ParseFromFs(fc.Root, fs)
	if err != nil {
		return "ERR: " + err.Error()
	}
	s, err := serialise(m)
	if err != nil {
		return "SERERR: " + err.Error()
	}
	return s
}

func (c07) Run(c core.Case) core.Outcome {
	var cs c07Case
	_ = json.Unmarshal(c.Data, &cs)
	switch c.Kind {
	case "mapord":
		return c07MapOrd(cs)
	case "seq":
		return c07Seq(cs, false)
	case "reuse":
		return c07Seq(cs, true)
	case "race":
		if len(cs.Srcs) == 1 && cs.Srcs[0] == -1 {
			return c07Race("cold")
		}
		return c07Race("")
	}
	return c07Pair(cs)
}

func c07MapOrd(cs c07Case) core.Outcome {
	var o core.Outcome
	o.Class = "mapord"
	src := c07Sources[cs.Srcs[0]]
	verifMapControl(true, 0, 0)
	base := compileSer(src)
	if strings.HasPrefix(base, "ERR") {
		o.Gap = "source does not compile: " + base
		return o
	}
	maxMap := 0
	for k := uintptr(0); k <= 1; k++ {
		for seed := uintptr(0); seed < 8; seed++ {
			verifMapControl(true, seed, k)
			got := compileSer(src)
			mx, _ := verifMapControl(true, 0, 0)
			if mx > maxMap {
				maxMap = mx
			}
			o.Traces++
			if got != base {
				o.Violation = fmt.Sprintf("source %s: serialised model under map-iteration start (seed=%d,k=%d) differs from the default run: %s", src.Root, seed, k, firstDiff(base, got))
				o.Sig = "mapord|" + src.Root
				return o
			}
		}
	}
	o.Extra = map[string]int{"max_map_entries_iterated": maxMap}
	if maxMap >= 2 {
		o.NonTrivial = "mapord|" + src.Root
	}
	return o
}

func c07Seq(cs c07Case, reuse bool) core.Outcome {
	var o core.Outcome
	o.Class = "seq"
	shared := parse.NewParser()
	if reuse {
		o.Class = "reuse"
	}
	solo := map[int]string{}
	for _, i := range cs.Srcs {
		if _, ok := solo[i]; !ok {
			solo[i] = soloResult(i)
		}
	}
	for pos, i := range cs.Srcs {
		got := ""
		if reuse {
			got = compileSerWith(shared, c07Sources[i])
		} else {
			got = compileSer(c07Sources[i])
		}
		o.Traces++
		if got != solo[i] {
			o.Violation = fmt.Sprintf("sequence %v: compilation #%d (%s) differs from its solo result: %s", cs.Srcs, pos, c07Sources[i].Root, firstDiff(solo[i], got))
			o.Sig = "seq-leak|" + c07Sources[i].Root
			if reuse {
				o.Violation = "one Parser object, " + o.Violation
				o.Sig = "parser-reuse-leak|" + c07Sources[i].Root
			}
			return o
		}
	}
	if n := parser.VerifLexerStates(); n != 0 {
		o.Violation = fmt.Sprintf("sequence %v: %d lexer states left in the process-global registry after all compilations ended", cs.Srcs, n)
		o.Sig = "lexer-state-leak"
		return o
	}
	if len(cs.Srcs) >= 2 {
		o.NonTrivial = fmt.Sprint(o.Class, cs.Srcs)
	}
	return o
}

// soloResult compiles source i in a fresh subprocess-free way: the worker's first compile of a
// source is by definition solo only if nothing ran before, so solo results come from a child process.
var soloCache = map[int]string{}

func soloResult(i int) string {
	if s, ok := soloCache[i]; ok {
		return s
	}
	self, _ := os.Executable()
	out, err := exec.Command(self, "c07solo", fmt.Sprint(i)).Output()
	if err != nil {
		return "SOLOERR: " + err.Error()
	}
	soloCache[i] = string(out)
	return soloCache[i]
}

// C07Solo is called from main for the "c07solo" subcommand.
func C07Solo(i int) {
	logrus.SetOutput(io.Discard)
	verifMapControl(true, 0, 0)
	fmt.Print(compileSer(c07Sources[i]))
}

func init() {
	core.Subcommands["c07solo"] = func(args []string) { var i int; fmt.Sscan(args[0], &i); C07Solo(i) }
}

func c07Pair(cs c07Case) core.Outcome {
	var o core.Outcome
	o.Class = fmt.Sprintf("conc%d", len(cs.Srcs))
	solo := make([]string, len(cs.Srcs))
	for k, i := range cs.Srcs {
		solo[k] = soloResult(i)
	}
	leak := 0
	body := func(s *verifrt.Sched) func() string {
		s.Kinds = map[string]bool{"read": true, "tok": true, "lexnew": true, "lexdel": true}
		s.Horizon = 200000
		res := make([]string, len(cs.Srcs))
		for k, i := range cs.Srcs {
			k, i := k, i
			var th *verifrt.Thread
			th = s.Spawn(nil, func() {
				defer func() {
					if r := recover(); r != nil {
						res[k] = fmt.Sprint("PANIC: ", r)
					}
				}()
				res[k] = compileSer(c07Sources[i])
			}, func(killed bool) { th.Result = "done" })
		}
		return func() string {
			leak = parser.VerifLexerStates()
			var b strings.Builder
			for k := range res {
				if res[k] == solo[k] {
					fmt.Fprintf(&b, "[%d same]", k)
				} else {
					fmt.Fprintf(&b, "[%d DIFF %s]", k, firstDiff(solo[k], res[k]))
				}
			}
			if leak != 0 {
				fmt.Fprintf(&b, "[lexer states left: %d]", leak)
			}
			return b.String()
		}
	}
	e := sched.New(body)
	e.Bound = cs.Bound
	e.Explore()
	o.States = e.Transitions + 1 // no state matching: every visited point is a distinct state of the execution tree
	o.Transitions = e.Transitions
	o.Traces = e.Execs
	o.Capped = e.Capped
	o.Extra = map[string]int{"schedules": e.Execs}
	if e.Diverged != "" {
		o.Gap = "DIVERGED: " + e.Diverged
		return o
	}
	if e.Execs > 1 {
		o.NonTrivial = fmt.Sprint("conc", cs.Srcs, cs.Bound)
	}
	names := []string{}
	for _, i := range cs.Srcs {
		names = append(names, c07Sources[i].Root)
	}
	if len(e.Deadlocks) > 0 || len(e.Horizons) > 0 {
		o.Violation = fmt.Sprintf("concurrent compilation of %v deadlocked or did not terminate: %v", names, e.Outcomes)
		o.Sig = "conc-deadlock"
		return o
	}
	want := ""
	for k := range cs.Srcs {
		want += fmt.Sprintf("[%d same]", k)
	}
	for obs, tr := range e.FirstTrace {
		if obs != want {
			o.Violation = fmt.Sprintf("concurrent compilation of %v under schedule %v (<=%d preemptions): %s", names, tr, cs.Bound, obs)
			o.Sig = "conc-crosstalk"
			if strings.Contains(obs, "lexer states left") && !strings.Contains(obs, "DIFF") {
				o.Sig = "lexer-state-leak"
			}
			d, _ := json.Marshal(map[string]interface{}{"schedule": tr, "sources": names})
			o.Detail = d
			return o
		}
	}
	return o
}

// c07Race: builds (cached) and runs the free-running -race monitor.
func c07Race(mode string) core.Outcome {
	var o core.Outcome
	o.Class = "race-monitor"
	if mode != "" {
		o.Class = "race-monitor-" + mode
	}
	bin := filepath.Join(core.VerifDir(), ".cache", "bin", "vrace")
	if _, err := os.Stat(bin); err != nil {
		o.Class = "race-monitor:not-built"
		return o
	}
	cmd := exec.Command("timeout", "-s", "KILL", "600", bin)
	if mode != "" {
		cmd = exec.Command("timeout", "-s", "KILL", "600", bin, mode)
	}
	cmd.Env = append(os.Environ(), "GORACE=halt_on_error=1 exitcode=66", "GOMEMLIMIT=8GiB")
	out, err := cmd.CombinedOutput()
	s := string(out)
	if cmd.ProcessState != nil && cmd.ProcessState.ExitCode() == 137 {
		o.Violation = "free-running concurrent compilations did not finish within 600 s (normal: 20 s): hang or runaway allocation"
		o.Sig = "race-monitor-hang"
		return o
	}
	if strings.Contains(s, "WARNING: DATA RACE") {
		// signature: first sysl frame of the report
		frame := ""
		for _, l := range strings.Split(s, "\n") {
			l = strings.TrimSpace(l)
			if strings.HasPrefix(l, "github.com/anz-bank/sysl/") {
				frame = strings.TrimPrefix(l[:strings.LastIndex(l, "(")], "github.com/anz-bank/sysl/")
				break
			}
		}
		o.Violation = "data race reported by the free-running -race monitor: first sysl frame " + frame + "\n" + s[:min(len(s), 3000)]
		o.Sig = "race|" + frame
		o.Witnessed = true
		return o
	}
	if err != nil {
		if strings.Contains(s, "MISMATCH") {
			o.Violation = "free-running concurrent compilation differs from sequential result: " + s[:min(len(s), 2000)]
			o.Sig = "race-monitor-mismatch"
			return o
		}
		o.Gap = "race monitor failed: " + err.Error() + ": " + s[:min(len(s), 1000)]
		return o
	}
	o.NonTrivial = "race-monitor" + mode
	return o
}

func min(a, b int) int {
	if a < b {
		return a
	}
	return b
}

func C07NumSources() int      { return len(c07Sources) }
func C07Compile(i int) string { logrus.SetOutput(io.Discard); return compileSer(c07Sources[i]) }
