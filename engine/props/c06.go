//go:build verifov

package props

// C06 — a failed read or bad file anywhere in the closure fails the compile cleanly.
// Same harness as C05 (real Parser under the cooperative scheduler, all schedules, state
// pruned); the files' answers are chosen from a fault menu. The fault is delivered at the
// read point wherever the explorer places that read relative to all other retrievals.

import (
	"encoding/json"
	"fmt"
	"io"
	"sort"
	"strings"
	"time"

	"github.com/sirupsen/logrus"

	"verif/engine/core"
	"verif/engine/sched"
)

type c06 struct{}

func init() { core.Register(c06{}) }

func (c06) ID() string     { return "C06" }
func (c06) Level() string  { return "fault_enumeration" }
func (c06) Binary() string { return "ov" }
func (c06) Rule() string {
	return "import graphs x every non-empty set of failing files up to the size bound x every fault kind per failing file (read error, content truncated inside a declaration, syntax error on an import line, syntax error in the body, undetectable / malformed foreign file) x ALL schedules of the concurrent retrieval on the real parse.Parser (full compile). Non-trivial = exploration with more than one execution (the fault can land at different times relative to sibling retrievals); distinct by (graph, fault set)"
}
func (c06) Assumptions() []string {
	return append(c05{}.Assumptions(), "each bad content is first compiled alone to confirm it is rejected (harness precondition)")
}
func (c06) CaseTimeout() time.Duration { return 15 * time.Minute }
func (c06) InitWorker()                { logrus.SetOutput(io.Discard) }

var c06Kinds = []string{"readerr", "trunc", "badimport", "badbody"}

// files cut inside the header of their last application (the syntax error is located at end of file)
var c06EOFKinds = []string{"trunchdr", "truncname", "trunccolon"}

func (c06) Bounds(tier string) map[string]interface{} {
	if tier == "thorough" {
		return map[string]interface{}{"graphs": "all N<=3 (lists<=2) + named N=4", "fault_set_size": "<=2 (N<=3), <=3 named", "kinds": c06Kinds, "foreign": true}
	}
	return map[string]interface{}{"graphs": "12 named shapes (N=2..4) + two-level trees of 5 and 6 files and fans of 4 and 5 imports (single faults)", "fault_set_size": "<=2", "kinds": c06Kinds, "foreign": true}
}

var c06QuickShapes = map[string][][]int{
	"pair":        {{1}, {}},
	"cycle2":      {{1}, {0}},
	"chain3":      {{1}, {2}, {}},
	"fan2":        {{1, 2}, {}, {}},
	"fan2-cross":  {{1, 2}, {2}, {}},
	"cycle3":      {{1}, {2}, {0}},
	"tri-shared":  {{1, 2}, {2}, {1}},
	"diamond":     {{1, 2}, {3}, {3}, {}},
	"long-short":  {{1, 3}, {2}, {3}, {}},
	"fan3":        {{1, 2, 3}, {}, {}, {}},
	"self":        {{0, 1}, {1}},
	"diamond-cyc": {{1, 2}, {3}, {3}, {0}},
}

func subsetsUpTo(n, k int) [][]int {
	var out [][]int
	var rec func(start int, cur []int)
	rec = func(start int, cur []int) {
		if len(cur) > 0 {
			out = append(out, append([]int{}, cur...))
		}
		if len(cur) == k {
			return
		}
		for i := start; i < n; i++ {
			rec(i+1, append(cur, i))
		}
	}
	rec(0, nil)
	sort.Slice(out, func(i, j int) bool {
		if len(out[i]) != len(out[j]) {
			return len(out[i]) < len(out[j])
		}
		return fmt.Sprint(out[i]) < fmt.Sprint(out[j])
	})
	return out
}

func (c06) Cases(tier string, emit func(string, interface{})) {
	addGraph := func(g [][]int, label string, maxSet int) {
		n := len(g)
		for _, sub := range subsetsUpTo(n, maxSet) {
			// every assignment of kinds to the failing files
			var rec func(i int, f map[string]string)
			rec = func(i int, f map[string]string) {
				if i == len(sub) {
					gc := mkGraphCase(g, 0, plainSpell, "a.sysl", label)
					gc.Faults = map[string]string{}
					for k, v := range f {
						gc.Faults[k] = v
					}
					emit("fault", gc)
					return
				}
				kinds := c06Kinds
				if len(sub) == 1 {
					kinds = append(append([]string{}, c06Kinds...), c06EOFKinds...) // end-of-file truncations: single faults only
				}
				for _, k := range kinds {
					f[fileLetters[sub[i]]+".sysl"] = k
					rec(i+1, f)
				}
				delete(f, fileLetters[sub[i]]+".sysl")
			}
			rec(0, map[string]string{})
		}
	}
	if tier == "thorough" {
		for n := 1; n <= 3; n++ {
			for i, g := range enumGraphs(n, 2) {
				addGraph(g, fmt.Sprintf("all-n%d-%d", n, i), 2)
			}
		}
		for _, k := range sortedKeys(namedShapes4) {
			addGraph(namedShapes4[k], k, 3)
		}
	} else {
		for _, k := range sortedKeys(c06QuickShapes) {
			addGraph(c06QuickShapes[k], k, 2)
		}
	}
	// two-level trees: a failing leaf whose parent still waits for a slow sibling while another
	// branch of the root completes (an error raised deep in one branch must still be the one reported)
	addGraph([][]int{{1, 4}, {2, 3}, {}, {}, {}}, "tree5", 1)
	addGraph([][]int{{1, 4}, {2, 3}, {}, {}, {5}, {}}, "tree6", 1)
	// wide fans (a bounded number of concurrent retrievals per file would treat the 4th and 5th import differently)
	addGraph([][]int{{1, 2, 3, 4}, {}, {}, {}, {}}, "fan4", 1)
	addGraph([][]int{{1, 2, 3, 4, 5}, {}, {}, {}, {}, {}}, "fan5", 1)
	addGraph([][]int{{1, 2, 3, 4}, {}, {}, {}, {5}, {}}, "fan4-deep", 1)
	// foreign files: root -> {b, F}, b -> {F}; and F alone as root import
	for _, ff := range foreignFaults {
		for si, shape := range []string{"solo", "sibling", "shared"} {
			_ = si
			emit("foreign", foreignCase{Shape: shape, File: ff.name, Content: ff.content})
		}
	}
}

type foreignCase struct {
	Shape   string `json:"shape"`
	File    string `json:"file"`
	Content string `json:"content"`
}

var foreignFaults = []struct{ name, content string }{
	{"f.yaml", "foo: bar\n"},                              // neither swagger nor openapi signature
	{"f.yaml", "openapi: \"3.0.0\"\ninfo: [\n"},           // malformed yaml
	{"f.yaml", "swagger: \"2.0\"\npaths: 17\n"},           // swagger the importer rejects
	{"f.json", "{ not json"},                              // not JSON
	{"f.json", "{\"openapi\": \"3.0.0\", \"paths\": 17}"}, // openapi the importer rejects
	{"f.pb", "\x00\xff\xfe garbage"},                      // binary garbage
	{"f.textpb", "apps { this is not textpb"},             // bad textpb
	{"f.pb.json", "{\"apps\": 17}"},                       // bad pb json
	{"f.pb.json", "{\"swagger\": \"2.0\", \"info\": {\"title\": \"T\", \"version\": \"1\"}, \"paths\": {}}"}, // well-formed JSON of another schema under the compiled-model extension
	{"f.textpb", "swagger: \"2.0\"\ninfo { title: \"T\" }\n"},                                                // well-formed text-proto of another message
	{"f.pb.json", "{\"applications\": {\"A\": {}}}"},                                                         // near miss of the real field name
	{"f.proto", "message {{{"}, // bad proto
	{"f.xml", "<a>"},           // unknown extension
}

func (c06) Run(c core.Case) core.Outcome {
	var gc graphCase
	var failing []string
	if c.Kind == "foreign" {
		var fc foreignCase
		_ = json.Unmarshal(c.Data, &fc)
		gc = graphCase{N: 2, Root: "a.sysl", Label: "foreign-" + fc.Shape + "-" + fc.File}
		gc.Extra = map[string]string{fc.File: fc.Content}
		imp := "import " + fc.File + " as Foreign :: App\n"
		switch fc.Shape {
		case "solo":
			gc.Extra["a.sysl"] = imp + "FA:\n    ...\n"
		case "sibling":
			gc.Extra["a.sysl"] = "import b\n" + imp + "import c\nFA:\n    ...\n"
			gc.Extra["b.sysl"] = "import c\nFB:\n    ...\n"
			gc.Extra["c.sysl"] = "FC:\n    ...\n"
		case "shared":
			gc.Extra["a.sysl"] = "import b\n" + imp + "FA:\n    ...\n"
			gc.Extra["b.sysl"] = imp + "import c\nFB:\n    ...\n"
			gc.Extra["c.sysl"] = "import a\nFC:\n    ...\n"
		}
		failing = []string{fc.File}
	} else {
		_ = json.Unmarshal(c.Data, &gc)
		for f := range gc.Faults {
			failing = append(failing, f)
		}
		sort.Strings(failing)
	}
	var o core.Outcome
	e := sched.New(retrievalBody(gc, true, nil))
	e.Prune = true
	e.Explore()
	o.States = len(e.States)
	o.Transitions = e.Transitions
	o.Traces = e.Execs
	o.Capped = e.Capped
	o.Extra = map[string]int{"complete_executions": e.Complete, "executions": e.Execs}
	o.Class = "explored"
	if e.Execs > 1 {
		o.NonTrivial = core.Hash(graphKey(gc) + fmt.Sprint(gc.Extra))
	}
	detail := map[string]interface{}{"outcomes": e.Outcomes, "first_trace": e.FirstTrace, "label": gc.Label, "failing": failing}
	fail := func(sig, msg string) core.Outcome {
		o.Violation = msg
		o.Sig = sig
		d, _ := json.Marshal(detail)
		o.Detail = d
		o.Class = "violation"
		return o
	}
	if e.Diverged != "" {
		o.Gap = "DIVERGED: " + e.Diverged
		return o
	}
	kinds := fmt.Sprint(gc.Faults)
	if c.Kind == "foreign" {
		kinds = "foreign:" + failing[0]
	}
	if len(e.Deadlocks) > 0 {
		return fail("deadlock", fmt.Sprintf("deadlock: graph %s faults %s schedule %v: %v", gc.Label, kinds, e.Deadlocks[0], e.Outcomes))
	}
	if len(e.Horizons) > 0 {
		return fail("livelock", fmt.Sprintf("no termination within the horizon: graph %s faults %s schedule %v", gc.Label, kinds, e.Horizons[0]))
	}
	var outs []string
	for k := range e.Outcomes {
		outs = append(outs, k)
	}
	sort.Strings(outs)
	for _, obs := range outs {
		sched := e.FirstTrace[obs]
		if strings.Contains(obs, "PANIC") {
			return fail("panic|"+faultKindSig(gc, c.Kind), fmt.Sprintf("graph %s faults %s schedule %v: compile panicked: %s", gc.Label, kinds, sched, obs))
		}
		if !strings.Contains(obs, "nilmod=true") {
			return fail("model-returned|"+faultKindSig(gc, c.Kind), fmt.Sprintf("graph %s %v faults %s schedule %v: a model was returned although a file fails: %s", gc.Label, gc.Imports, kinds, sched, obs))
		}
		if strings.Contains(obs, `err=""`) {
			return fail("no-error|"+faultKindSig(gc, c.Kind), fmt.Sprintf("graph %s faults %s schedule %v: no error: %s", gc.Label, kinds, sched, obs))
		}
		named := false
		errText := obs
		if i := strings.Index(obs, " err="); i >= 0 {
			errText = obs[i:]
			if j := strings.LastIndex(errText, " reads="); j >= 0 {
				errText = errText[:j] // the list of reads names every file: only the error text counts
			}
		}
		for _, f := range failing {
			if strings.Contains(errText, f) {
				named = true
			}
		}
		if !named {
			return fail("error-names-no-failing-file|"+faultKindSig(gc, c.Kind), fmt.Sprintf("graph %s %v faults %s schedule %v: error does not name any failing file %v: %s", gc.Label, gc.Imports, kinds, sched, failing, obs))
		}
	}
	if len(outs) == 0 {
		o.Gap = "no complete execution"
	}
	return o
}

func faultKindSig(gc graphCase, kind string) string {
	if kind == "foreign" {
		for f := range gc.Extra {
			if strings.HasPrefix(f, "f.") {
				return "foreign:" + f
			}
		}
	}
	var ks []string
	for _, k := range gc.Faults {
		ks = append(ks, k)
	}
	sort.Strings(ks)
	return strings.Join(ks, "+")
}
