package props

// C04 — splitting declarations across blocks or imported files merges losslessly.
// The listener is a state machine fed application blocks; every partition of the member
// alphabet into blocks, every order of the re-opening blocks and every placement of blocks in
// files of an import graph is compiled and compared (differentially) with the joined declaration.

import (
	"encoding/json"
	"fmt"
	"io"
	"sort"
	"strings"
	"time"

	"github.com/sirupsen/logrus"
	"google.golang.org/protobuf/proto"

	"github.com/anz-bank/sysl/pkg/parse"
	"github.com/anz-bank/sysl/pkg/sysl"
	"verif/engine/core"
	"verif/engine/gen"
)

type c04 struct{}

func init() { core.Register(c04{}) }

func (c04) ID() string    { return "C04" }
func (c04) Level() string { return "model_checking" }
func (c04) Rule() string {
	return "explicit-state exploration of the listener fed application blocks: all set partitions of the member alphabet into <=k blocks x all orders of the non-header blocks x placements of the blocks in files (one file; a chain of imports; a star of imports in both import orders); states = canonical models after each block sequence, transitions = blocks compiled; the state reached by any split must equal the state reached by the joined declaration. Non-trivial = a split with >=2 blocks; distinct by (partition, order, placement)"
}
func (c04) Assumptions() []string {
	return []string{
		"members are kept atomic (a member is never cut in the middle of an endpoint body); the fields of one type and the key columns of one table are separate members",
		"the header block (long name, attributes) comes first; re-opening blocks carry no attributes",
		"models are compared with proto.Equal after clearing source contexts and the import list",
	}
}
func (c04) CaseTimeout() time.Duration { return 60 * time.Second }
func (c04) InitWorker()                { logrus.SetOutput(io.Discard) }

type c04Case struct {
	Members []int   `json:"members"` // which members of the alphabet are in play
	Blocks  [][]int `json:"blocks"`  // partition of Members, in block order
	Place   string  `json:"place"`   // onefile, chain, star, star-rev
}

func (c04) Bounds(tier string) map[string]interface{} {
	if tier == "thorough" {
		return map[string]interface{}{"members": 9, "max_blocks": 3, "members_for_4_blocks": 8, "placements": []string{"onefile", "chain", "star", "star-rev", "tree", "shared-first"}}
	}
	return map[string]interface{}{"members": 7, "max_blocks": 3, "placements": []string{"onefile", "chain", "star", "star-rev", "tree", "shared-first"}}
}

func (c04) Cases(tier string, emit func(string, interface{})) {
	if tier == "thorough" {
		// 9 members in up to 3 blocks, and 8 members in exactly 4 blocks (9 members in 4 blocks are
		// 186 480 splits, about half an hour: measured, not affordable next to the other checks)
		c04Cases(tier, 9, 3, 0, emit)
		c04Cases(tier, 8, 4, 4, emit)
		return
	}
	c04Cases(tier, 7, 3, 0, emit)
}

func c04Cases(tier string, n, k, only int, emit func(string, interface{})) {
	members := make([]int, n)
	for i := range members {
		members[i] = i
	}
	for _, part := range gen.SetPartitions(n, k) {
		nb := len(part)
		if only > 0 && nb != only {
			continue
		}
		if nb == 1 {
			emit("joined", c04Case{Members: members, Blocks: part, Place: "onefile"})
			continue
		}
		// orders of the non-header blocks (block 0 holds member 0 and stays first)
		for _, perm := range gen.Permutations(nb - 1) {
			blocks := [][]int{part[0]}
			for _, p := range perm {
				blocks = append(blocks, part[p+1])
			}
			for _, place := range []string{"onefile", "chain", "star", "star-rev", "tree", "shared-first"} {
				if tier != "thorough" && nb == 3 && place == "star-rev" && perm[0] != 0 {
					continue
				}
				if place == "tree" && nb < 3 {
					continue // with two blocks it is the chain
				}
				if place == "shared-first" && tier != "thorough" && perm[0] != 0 {
					continue
				}
				emit("split", c04Case{Members: members, Blocks: blocks, Place: place})
			}
		}
	}
}

func c04App(blockMembers []int, header bool) *gen.App {
	a := &gen.App{Name: []string{"Ns", "App"}}
	if header {
		a.Long = "the app"
		a.Attrs = []gen.Attr{{Key: "owner", Val: gen.Str("team")}, {Key: "hdr", Tag: true}}
	}
	ms := gen.C04Members()
	for _, m := range blockMembers {
		ms[m](a)
	}
	return a
}

func c04Support() string {
	return "Other:\n    !type U:\n        z <: int\n    Ep2:\n        ...\n"
}

// c04Files renders the blocks into files according to the placement. The merge order is the
// flatten order: root file first, then its imports depth-first in text order.
func c04Files(cs c04Case) filesCase {
	lay := gen.DefaultLayout
	render := func(blocks [][]int, first bool) string {
		var b strings.Builder
		for i, bl := range blocks {
			r := gen.RenderApps([]*gen.App{c04App(bl, first && i == 0)}, lay)
			b.WriteString(r.Text)
		}
		return b.String()
	}
	files := map[string]string{}
	switch cs.Place {
	case "onefile":
		files["r.sysl"] = render(cs.Blocks, true) + c04Support()
	case "chain":
		// r -> f1 -> f2 ...: block i lives in file i
		for i := range cs.Blocks {
			name := "r.sysl"
			if i > 0 {
				name = fmt.Sprintf("f%d.sysl", i)
			}
			imp := ""
			if i+1 < len(cs.Blocks) {
				imp = fmt.Sprintf("import f%d\n", i+1)
			} else {
				imp = "import sup\n"
			}
			files[name] = imp + render(cs.Blocks[i:i+1], i == 0)
		}
		files["sup.sysl"] = c04Support()
	case "shared-first":
		// a chain in which every file first imports the shared support file (already in the merge list from the
		// second file on) and then the next block's file
		for i := range cs.Blocks {
			name := "r.sysl"
			if i > 0 {
				name = fmt.Sprintf("f%d.sysl", i)
			}
			imp := "import sup\n"
			if i+1 < len(cs.Blocks) {
				imp += fmt.Sprintf("import f%d\n", i+1)
			}
			files[name] = imp + render(cs.Blocks[i:i+1], i == 0)
		}
		files["sup.sysl"] = c04Support()
	case "tree":
		// r imports mid and then f2..fn; mid holds no block and imports f1: the merge order is the
		// depth-first order r, mid, f1, f2.. (a breadth-first walk would take f2 before f1)
		imps := "import mid\n"
		for i := 2; i < len(cs.Blocks); i++ {
			imps += fmt.Sprintf("import f%d\n", i)
		}
		files["r.sysl"] = imps + "import sup\n" + render(cs.Blocks[:1], true)
		files["mid.sysl"] = "import f1\n"
		for i := 1; i < len(cs.Blocks); i++ {
			files[fmt.Sprintf("f%d.sysl", i)] = render(cs.Blocks[i:i+1], false)
		}
		files["sup.sysl"] = c04Support()
	case "star", "star-rev":
		// r imports f1..fn (text order = block order, or reversed with the blocks swapped so that the
		// merge order is still the block order)
		var imps []string
		for i := 1; i < len(cs.Blocks); i++ {
			imps = append(imps, fmt.Sprintf("import f%d\n", i))
		}
		if cs.Place == "star-rev" {
			// reversed import statements; file contents assigned so that flatten order == block order
			sort.Sort(sort.Reverse(sort.StringSlice(imps)))
			for i := 1; i < len(cs.Blocks); i++ {
				files[fmt.Sprintf("f%d.sysl", len(cs.Blocks)-i)] = render(cs.Blocks[i:i+1], false)
			}
		} else {
			for i := 1; i < len(cs.Blocks); i++ {
				files[fmt.Sprintf("f%d.sysl", i)] = render(cs.Blocks[i:i+1], false)
			}
		}
		files["r.sysl"] = strings.Join(imps, "") + "import sup\n" + render(cs.Blocks[:1], true)
		files["sup.sysl"] = c04Support()
	}
	return filesCase{Root: "r.sysl", Files: files}
}

// strippedNoImports clears locations and imports, and puts the two lists whose order is the
// declaration order of the blocks themselves (key columns, mixins) into name order.
func strippedNoImports(m *sysl.Module) *sysl.Module {
	c := stripped(m)
	c.Imports = nil
	for _, app := range c.Apps {
		sort.Slice(app.Mixin2, func(i, j int) bool {
			return appNameKey(app.Mixin2[i].GetName()) < appNameKey(app.Mixin2[j].GetName())
		})
		for _, t := range app.Types {
			if pk := t.GetRelation().GetPrimaryKey(); pk != nil {
				sort.Strings(pk.AttrName)
			}
		}
	}
	return c
}

var c04JoinedCache = map[string]*sysl.Module{}

func (c04) Run(c core.Case) core.Outcome {
	var cs c04Case
	_ = json.Unmarshal(c.Data, &cs)
	var o core.Outcome
	key := fmt.Sprint(cs.Members)
	joined, ok := c04JoinedCache[key]
	if !ok {
		jc := c04Case{Members: cs.Members, Blocks: [][]int{cs.Members}, Place: "onefile"}
		m, err, crash := compileFiles(c04Files(jc), parse.Settings{})
		if err != nil || crash != "" {
			o.Gap = fmt.Sprintf("joined declaration does not compile: %v %s", err, crash)
			return o
		}
		// the joined declaration must itself say what was declared
		want := gen.Intended(&gen.Spec{Apps: []*gen.App{c04App(cs.Members, true)}})
		got := Project(m)
		var gotMain gen.Summary
		for _, l := range got {
			if strings.Contains(l, " Ns :: App") {
				gotMain = append(gotMain, l)
			}
		}
		if d := SummaryDiff(want, gotMain); d != "" {
			o.Violation = "joined declaration does not compile to what it declares: " + d
			o.Sig = "joined-differs|" + diffClass(d)
			return o
		}
		joined = strippedNoImports(m)
		c04JoinedCache[key] = joined
	}
	fc := c04Files(cs)
	m, err, crash := compileFiles(fc, parse.Settings{})
	o.States = 1
	o.Transitions = len(cs.Blocks)
	o.Traces = 1
	desc := fmt.Sprintf("blocks %v placed %s", cs.Blocks, cs.Place)
	d, _ := json.Marshal(fc)
	switch {
	case crash != "":
		_, frame := core.CrashSig(crash)
		o.Class = "crash"
		o.Violation = desc + ": split declaration crashes the compiler at " + frame
		o.Sig = "crash|" + frame
		o.Detail = d
		return o
	case err != nil:
		o.Class = "rejected"
		o.Violation = fmt.Sprintf("%s: split declaration is rejected: %v", desc, err)
		o.Sig = "rejected"
		o.Detail = d
		return o
	}
	got := strippedNoImports(m)
	if !proto.Equal(joined, got) {
		diff := SummaryDiff(Project(joined), Project(got))
		if diff == "" {
			diff = protoDiff(joined, got)
		}
		o.Class = "differs"
		o.Violation = fmt.Sprintf("%s: split model differs from the joined declaration: %s", desc, diff)
		o.Sig = "split-differs|" + diffClass(diff)
		o.Detail = d
		return o
	}
	// one source context per declaring block
	if app := m.Apps["Ns :: App"]; app != nil && len(app.SourceContexts) != len(cs.Blocks) {
		o.Class = "source-contexts"
		o.Violation = fmt.Sprintf("%s: application declared in %d blocks carries %d source contexts", desc, len(cs.Blocks), len(app.SourceContexts))
		o.Sig = "app-source-context-count"
		o.Detail = d
		return o
	}
	o.Class = "equal"
	if len(cs.Blocks) >= 2 {
		o.NonTrivial = core.Hash(desc)
	}
	return o
}
