package props

// C08 — recorded source locations point at the declaring text. The renderer records where it
// wrote the first character of every element; the compiled model must carry exactly those
// positions (zero-based), in declaration order, in the declaring file, with end >= start.

import (
	"encoding/json"
	"fmt"
	"io"
	"path/filepath"
	"sort"
	"strings"
	"time"

	"github.com/sirupsen/logrus"

	"github.com/anz-bank/sysl/pkg/parse"
	"github.com/anz-bank/sysl/pkg/sysl"
	"verif/engine/core"
	"verif/engine/gen"
)

type c08 struct{}

func init() { core.Register(c08{}) }

func (c08) ID() string    { return "C08" }
func (c08) Level() string { return "exploration" }
func (c08) Rule() string {
	return "generated specifications of C02 (member pairs, statement forests, REST trees, annotations) under every layout (indent unit 2/4/tab x blank lines x comments) and the multi-block / multi-file splits of C04; for every application, type, field, endpoint, statement and annotation the renderer's recorded (file, line, column) of the first character of the declaration is compared with the model's source_contexts. Non-trivial = at least 5 located elements compared; distinct by rendered text"
}
func (c08) Assumptions() []string {
	return []string{
		"the start convention per element kind is 'first character of its own declaration': application name, '!type'/'!table'/... keyword, field name, endpoint name / HTTP verb / '<->' of an event / source application of a subscription, first token of a statement, '@' of an annotation",
		"implied elements (publisher endpoint of a subscription, the 'rest' tag) carry no location and are exempt; inline '[k=v]' attribute entries are not compared",
	}
}
func (c08) CaseTimeout() time.Duration { return 60 * time.Second }
func (c08) InitWorker()                { logrus.SetOutput(io.Discard) }

type c08Case struct {
	Label  string     `json:"label"`
	Spec   *gen.Spec  `json:"spec,omitempty"`
	Layout gen.Layout `json:"layout"`
	Split  *c04Case   `json:"split,omitempty"`
	Dirs   string     `json:"dirs,omitempty"` // split cases: where the files live (abs, up, dot)
}

var c08Layouts = []gen.Layout{
	{Unit: "    "}, {Unit: "  "}, {Unit: "\t"},
	{Unit: "    ", BlankLines: true}, {Unit: "  ", Comments: true}, {Unit: "\t", BlankLines: true, Comments: true},
}

func (c08) Bounds(tier string) map[string]interface{} {
	return map[string]interface{}{"layouts": len(c08Layouts)}
}

func (c08) Cases(tier string, emit func(string, interface{})) {
	full := tier == "thorough"
	var specs []gen.Labeled
	specs = append(specs, gen.L2()...)
	specs = append(specs, gen.L3(full)...)
	specs = append(specs, gen.L4(full)...)
	for _, l := range gen.L5() {
		if strings.Contains(l.Label, "anno") {
			specs = append(specs, l)
		}
	}
	for i, l := range specs {
		for li, lay := range c08Layouts {
			if !full && li != i%len(c08Layouts) && li != (i+3)%len(c08Layouts) {
				continue
			}
			emit("single", c08Case{Label: l.Label, Spec: l.Spec, Layout: lay})
		}
	}
	// multi-block / multi-file
	n, k := 5, 3
	if full {
		n, k = 7, 3
	}
	members := make([]int, n)
	for i := range members {
		members[i] = i
	}
	members[n-1] = 9 // the last member re-declares fields of the type (n declarations => n locations)
	for _, part := range gen.SetPartitions(n, k) {
		if len(part) < 2 {
			continue
		}
		for _, perm := range gen.Permutations(len(part) - 1) {
			blocks := [][]int{part[0]}
			for _, p := range perm {
				blocks = append(blocks, part[p+1])
			}
			for bi := range blocks {
				mapped := make([]int, len(blocks[bi]))
				for j, ix := range blocks[bi] {
					mapped[j] = members[ix]
				}
				blocks[bi] = mapped
			}
			places := []string{"onefile", "chain", "star"}
			if len(blocks) >= 3 {
				places = append(places, "tree")
			}
			for _, place := range places {
				emit("split", c08Case{Label: fmt.Sprintf("split %v %s", blocks, place), Split: &c04Case{Members: members, Blocks: blocks, Place: place}, Layout: gen.DefaultLayout})
			}
			// the same star placement with the files in directories: absolute root module, imports
			// that climb above the working directory, a dot directory (plain filesystem)
			for _, dirs := range []string{"abs", "up", "dot"} {
				emit("splitdirs", c08Case{Label: fmt.Sprintf("split %v star %s", blocks, dirs), Split: &c04Case{Members: members, Blocks: blocks, Place: "star"}, Layout: gen.DefaultLayout, Dirs: dirs})
			}
		}
	}
}

type locPos struct {
	File      string
	Line, Col int
	EndLine   int
	EndCol    int
}

func scList(scs []*sysl.SourceContext) []locPos {
	var out []locPos
	for _, sc := range scs {
		out = append(out, locPos{sc.GetFile(), int(sc.GetStart().GetLine()), int(sc.GetStart().GetCol()), int(sc.GetEnd().GetLine()), int(sc.GetEnd().GetCol())})
	}
	return out
}

// modelLocations collects located elements of a module under the renderer's keys.
func modelLocations(m *sysl.Module) map[string][]locPos {
	out := map[string][]locPos{}
	annos := func(prefix string, attrs map[string]*sysl.Attribute) {
		for k, a := range attrs {
			if k == "patterns" {
				continue
			}
			out[prefix+" attr "+k] = scList(a.GetSourceContexts())
		}
	}
	for _, app := range m.GetApps() {
		an := appNameKey(app.GetName())
		out["app "+an] = scList(app.GetSourceContexts())
		annos("app "+an, app.GetAttrs())
		for tn, t := range app.GetTypes() {
			tk := "type " + an + "." + tn
			out[tk] = scList(t.GetSourceContexts())
			annos(tk, t.GetAttrs())
			var fields map[string]*sysl.Type
			if x := t.GetTuple(); x != nil {
				fields = x.GetAttrDefs()
			}
			if x := t.GetRelation(); x != nil {
				fields = x.GetAttrDefs()
			}
			for fn, ft := range fields {
				fk := "field " + an + "." + tn + "." + fn
				out[fk] = scList(ft.GetSourceContexts())
				annos(fk, ft.GetAttrs())
			}
		}
		for _, e := range app.GetEndpoints() {
			ek := "ep " + an + "." + e.GetName()
			out[ek] = scList(e.GetSourceContexts())
			annos(ek, e.GetAttrs())
			var walk func(prefix string, ss []*sysl.Statement)
			walk = func(prefix string, ss []*sysl.Statement) {
				for i, s := range ss {
					p := fmt.Sprintf("%s%d", prefix, i)
					out["stmt "+an+"."+e.GetName()+" "+p] = scList(s.GetSourceContexts())
					switch x := s.GetStmt().(type) {
					case *sysl.Statement_Cond:
						walk(p+".", x.Cond.GetStmt())
					case *sysl.Statement_Loop:
						walk(p+".", x.Loop.GetStmt())
					case *sysl.Statement_LoopN:
						walk(p+".", x.LoopN.GetStmt())
					case *sysl.Statement_Foreach:
						walk(p+".", x.Foreach.GetStmt())
					case *sysl.Statement_Group:
						walk(p+".", x.Group.GetStmt())
					case *sysl.Statement_Alt:
						for ci, c := range x.Alt.GetChoice() {
							walk(fmt.Sprintf("%s.c%d.", p, ci), c.GetStmt())
						}
					}
				}
			}
			walk("", e.GetStmt())
		}
	}
	return out
}

func elemKind(key string) string {
	f := strings.Fields(key)
	k := f[0]
	if strings.Contains(key, " attr ") {
		k += "-annotation"
	}
	return k
}

func (c08) Run(c core.Case) core.Outcome {
	var cs c08Case
	_ = json.Unmarshal(c.Data, &cs)
	var o core.Outcome
	// expected positions: key -> list of (file, pos)
	type fp = struct {
		file string
		p    gen.Pos
	}
	want := map[string][]fp{}
	var fc filesCase
	if cs.Split != nil {
		fc, want = c08SplitFiles(*cs.Split)
		if cs.Dirs != "" {
			rename := func(n string) string {
				switch cs.Dirs {
				case "abs":
					return "/proj/apps/" + n
				case "dot":
					return ".specs/" + n
				case "up":
					if n != "r.sysl" {
						return "../shared/" + n
					}
				}
				return n
			}
			nf := map[string]string{}
			for n, t := range fc.Files {
				if cs.Dirs == "up" && n == "r.sysl" {
					t = strings.ReplaceAll(t, "import ", "import ../shared/") // same line count: positions unchanged
				}
				nf[rename(n)] = t
			}
			fc.Files, fc.Root = nf, rename(fc.Root)
			for k, ws := range want {
				for i := range ws {
					ws[i].file = rename(ws[i].file)
				}
				want[k] = ws
			}
		}
	} else {
		r := gen.Render(cs.Spec, cs.Layout)
		fc = filesCase{Root: "t.sysl", Files: map[string]string{"t.sysl": r.Text}}
		for k, ps := range r.Pos {
			for _, p := range ps {
				want[k] = append(want[k], fp{"t.sysl", p})
			}
		}
	}
	m, err, crash := compileFiles(fc, parse.Settings{})
	if err != nil || crash != "" {
		o.Class = "does-not-compile"
		return o // C02's business
	}
	got := modelLocations(m)
	lines := map[string][]string{}
	for f, txt := range fc.Files {
		lines[f] = strings.Split(txt, "\n")
	}
	keys := make([]string, 0, len(want))
	for k := range want {
		keys = append(keys, k)
	}
	sort.Strings(keys)
	compared := 0
	eventNoLoc := ""
	d, _ := json.Marshal(fc)
	fail := func(kind, msg string) core.Outcome {
		o.Class = "mislocated"
		o.Violation = fmt.Sprintf("%s [%v]: %s", cs.Label, cs.Layout, msg)
		o.Sig = kind
		o.Detail = d
		return o
	}
	for _, k := range keys {
		w := want[k]
		g, ok := got[k]
		if !ok {
			continue // element absent from the model: C02's business
		}
		kind := elemKind(k)
		if len(g) == 0 && kind == "ep" && strings.HasPrefix(cs.Label, "L2/pubsub") {
			// reported after everything else has been compared
			eventNoLoc = fmt.Sprintf("%s is declared once, after a subscription to it, and carries no location", k)
			continue
		}
		if len(g) != len(w) {
			return fail("count|"+kind, fmt.Sprintf("%s is declared %d time(s) but carries %d location(s) %v", k, len(w), len(g), g))
		}
		for i := range w {
			compared++
			if g[i].File != w[i].file && (cs.Dirs == "" || filepath.Clean(g[i].File) != filepath.Clean(w[i].file)) {
				return fail("file|"+kind, fmt.Sprintf("%s declaration #%d is in %s but the location says %q", k, i, w[i].file, g[i].File))
			}
			if g[i].Line != w[i].p.Line || g[i].Col != w[i].p.Col {
				src := ""
				if ls := lines[w[i].file]; w[i].p.Line < len(ls) {
					src = ls[w[i].p.Line]
				}
				return fail("start|"+kind, fmt.Sprintf("%s declaration #%d was written at %d:%d but the model says %d:%d (line: %q)", k, i, w[i].p.Line, w[i].p.Col, g[i].Line, g[i].Col, src))
			}
			if g[i].EndLine < g[i].Line || (g[i].EndLine == g[i].Line && g[i].EndCol < g[i].Col) {
				return fail("end-before-start|"+kind, fmt.Sprintf("%s declaration #%d: end %d:%d is before start %d:%d", k, i, g[i].EndLine, g[i].EndCol, g[i].Line, g[i].Col))
			}
			ls := lines[w[i].file]
			if g[i].Line >= len(ls) || g[i].Col > len(ls[g[i].Line]) {
				return fail("outside-file|"+kind, fmt.Sprintf("%s declaration #%d: start %d:%d is outside %s", k, i, g[i].Line, g[i].Col, w[i].file))
			}
		}
	}
	if eventNoLoc != "" {
		return fail("count|ep|event-declared-after-subscription", eventNoLoc)
	}
	o.Class = "located"
	o.Extra = map[string]int{"elements_compared": compared}
	if compared >= 5 {
		o.NonTrivial = core.Hash(fmt.Sprint(fc.Files))
	}
	return o
}

// c08SplitFiles renders a C04 split and returns the expected (file, position) of every element.
func c08SplitFiles(cs c04Case) (filesCase, map[string][]struct {
	file string
	p    gen.Pos
}) {
	type fp = struct {
		file string
		p    gen.Pos
	}
	want := map[string][]fp{}
	files := map[string]string{}
	// same placement logic as c04Files, but tracking offsets
	put := func(name, prefix string, blocks [][]int, first bool) {
		text := prefix
		for i, bl := range blocks {
			r := gen.RenderApps([]*gen.App{c04App(bl, first && i == 0)}, gen.DefaultLayout)
			base := strings.Count(text, "\n")
			for k, ps := range r.Pos {
				for _, p := range ps {
					want[k] = append(want[k], fp{name, gen.Pos{Line: p.Line + base, Col: p.Col}})
				}
			}
			text += r.Text
		}
		files[name] = text
	}
	switch cs.Place {
	case "onefile":
		put("r.sysl", "", cs.Blocks, true)
		files["r.sysl"] += c04Support()
	case "chain":
		for i := range cs.Blocks {
			name := "r.sysl"
			if i > 0 {
				name = fmt.Sprintf("f%d.sysl", i)
			}
			imp := "import sup\n"
			if i+1 < len(cs.Blocks) {
				imp = fmt.Sprintf("import f%d\n", i+1)
			}
			put(name, imp, cs.Blocks[i:i+1], i == 0)
		}
		files["sup.sysl"] = c04Support()
	case "tree":
		imps := "import mid\n"
		for i := 2; i < len(cs.Blocks); i++ {
			imps += fmt.Sprintf("import f%d\n", i)
		}
		put("r.sysl", imps+"import sup\n", cs.Blocks[:1], true)
		files["mid.sysl"] = "import f1\n"
		for i := 1; i < len(cs.Blocks); i++ {
			put(fmt.Sprintf("f%d.sysl", i), "", cs.Blocks[i:i+1], false)
		}
		files["sup.sysl"] = c04Support()
	default:
		var imps string
		for i := 1; i < len(cs.Blocks); i++ {
			imps += fmt.Sprintf("import f%d\n", i)
		}
		put("r.sysl", imps+"import sup\n", cs.Blocks[:1], true)
		for i := 1; i < len(cs.Blocks); i++ {
			put(fmt.Sprintf("f%d.sysl", i), "", cs.Blocks[i:i+1], false)
		}
		files["sup.sysl"] = c04Support()
	}
	// declaration order across files = merge order = block order: the want lists were appended in block order
	return filesCase{Root: "r.sysl", Files: files}, want
}
