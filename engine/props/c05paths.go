//go:build verifov

package props

// C05, "paths" family: files in directories, on a plain (not chroot-ed) filesystem, imported
// through spellings that climb out of and back into directories. Reference model of file identity:
// the cleaned join of the importer's directory and the spelling (rooted spellings are joined to "."),
// which is exactly how afero's MemMapFs keys its files. Different files must never be conflated,
// spellings of one file must be.

import (
	"encoding/json"
	"fmt"
	"path"
	"path/filepath"
	"sort"
	"strings"

	"github.com/spf13/afero"

	"github.com/anz-bank/sysl/pkg/parse"
	"github.com/anz-bank/sysl/pkg/sysl"
	"github.com/anz-bank/sysl/pkg/verifrt"
	"verif/engine/core"
	"verif/engine/sched"
)

type pathsCase struct {
	SP string `json:"sp"` // import written in d/p.sysl
	SQ string `json:"sq"` // import written in q.sysl
}

type rawYieldFs struct {
	afero.Fs
	reads map[string]int
}

func (y *rawYieldFs) Open(name string) (afero.File, error) {
	c := filepath.Clean(strings.ReplaceAll(name, `\`, "/"))
	if !strings.HasSuffix(c, ".sysl") || strings.HasPrefix(path.Base(c), ".sysl") {
		return y.Fs.Open(name)
	}
	verifrt.Yield("read", c)
	y.reads[c]++
	return y.Fs.Open(name)
}

// the leaf files that spellings can reach, with the application each declares
var pathsLeaves = map[string]string{
	"lib/x.sysl":    "XLib",
	"../lib/x.sysl": "XUpLib",
	"d/x.sysl":      "XD",
	"../d/x.sysl":   "XUpD",
	"x.sysl":        "XTop",
	"../x.sysl":     "XUp",
}

var pathsSP = []string{"../lib/x", "../../lib/x", "/lib/x", "../d/../lib/x", "x", "./x", "../../d/x", "../x", "../../x", "/../lib/x"}
var pathsSQ = []string{"lib/x", "../lib/x", "/lib/x", "./lib/x", "lib/../lib/x", "d/x", "../d/x", "x", "../x", "/x"}

func resolveSpelling(importerDir, sp string) string {
	if strings.HasPrefix(sp, "/") {
		return filepath.Clean(filepath.Join(".", sp)) + ".sysl"
	}
	return filepath.Clean(filepath.Join(importerDir, sp)) + ".sysl"
}

func init() {
	c05PathsCases = func(tier string, emit func(string, interface{})) {
		for _, sp := range pathsSP {
			for _, sq := range pathsSQ {
				emit("paths", pathsCase{SP: sp, SQ: sq})
			}
		}
	}
	c05RunPaths = runPaths
}

func runPaths(c core.Case) core.Outcome {
	var pc pathsCase
	_ = json.Unmarshal(c.Data, &pc)
	var o core.Outcome
	o.Class = "explored"
	kp, kq := resolveSpelling("d", pc.SP), resolveSpelling(".", pc.SQ)
	ap, okp := pathsLeaves[kp]
	aq, okq := pathsLeaves[kq]
	if !okp || !okq {
		o.Gap = fmt.Sprintf("paths: spelling resolves to a file outside the leaf table: %q -> %q, %q -> %q", pc.SP, kp, pc.SQ, kq)
		return o
	}
	body := func(s *verifrt.Sched) func() string {
		mem := afero.NewMemMapFs()
		w := func(n, t string) { _ = afero.WriteFile(mem, n, []byte(t), 0o644) }
		w("root.sysl", "import d/p\nimport q\nRoot:\n    ...\nS:\n    ERoot:\n        ...\n")
		w("d/p.sysl", "import "+pc.SP+"\nP:\n    ...\nS:\n    EP:\n        ...\n")
		w("q.sysl", "import "+pc.SQ+"\nQ:\n    ...\nS:\n    EQ:\n        ...\n")
		for n, app := range pathsLeaves {
			w(n, app+":\n    ...\nS:\n    E"+app+":\n        ...\n")
		}
		yfs := &rawYieldFs{Fs: mem, reads: map[string]int{}}
		var m *sysl.Module
		var err error
		var root *verifrt.Thread
		root = s.Spawn(nil, func() {
			m, err = parse.NewParser().ParseFromFs("root.sysl", yfs)
		}, func(killed bool) {
			if err != nil {
				root.Result = "err"
			} else {
				root.Result = "ok"
			}
		})
		return func() string {
			var apps, order, reads []string
			if m != nil {
				for k := range m.Apps {
					apps = append(apps, k)
				}
				sort.Strings(apps)
				for _, sc := range m.Apps["S"].GetSourceContexts() {
					order = append(order, filepath.Clean(sc.GetFile()))
				}
			}
			for k, v := range yfs.reads {
				reads = append(reads, fmt.Sprintf("%s:%d", k, v))
			}
			sort.Strings(reads)
			es := ""
			if err != nil {
				es = err.Error()
			}
			return fmt.Sprintf("apps=%v order=%v reads=%v err=%q", apps, order, reads, es)
		}
	}
	e := sched.New(body)
	e.Prune = true
	e.Explore()
	o.States, o.Transitions, o.Traces, o.Capped = len(e.States), e.Transitions, e.Execs, e.Capped
	if e.Execs > 1 {
		o.NonTrivial = fmt.Sprintf("paths|%s|%s", pc.SP, pc.SQ)
	}
	desc := fmt.Sprintf("plain filesystem; root.sysl imports d/p and q; d/p.sysl has 'import %s' (file %s), q.sysl has 'import %s' (file %s)", pc.SP, kp, pc.SQ, kq)
	fail := func(sig, msg string) core.Outcome {
		o.Class = "violation"
		o.Violation = desc + ": " + msg
		o.Sig = "paths|" + sig
		return o
	}
	if e.Diverged != "" {
		o.Gap = e.Diverged
		return o
	}
	if len(e.Deadlocks) > 0 || len(e.Horizons) > 0 {
		return fail("deadlock", fmt.Sprint(e.Outcomes))
	}
	var outs []string
	for k := range e.Outcomes {
		outs = append(outs, k)
	}
	sort.Strings(outs)
	if len(outs) != 1 {
		return fail("schedule-dependent", fmt.Sprintf("%d different results over the schedules: %v", len(outs), outs))
	}
	wantApps := []string{"P", "Q", "Root", "S", ap}
	wantOrder := []string{"root.sysl", "d/p.sysl", kp, "q.sysl"}
	wantReads := []string{"root.sysl:1", "d/p.sysl:1", "q.sysl:1", kp + ":1"}
	if kq != kp {
		wantApps = append(wantApps, aq)
		wantOrder = append(wantOrder, kq)
		wantReads = append(wantReads, kq+":1")
	}
	sort.Strings(wantApps)
	sort.Strings(wantReads)
	want := fmt.Sprintf("apps=%v order=%v reads=%v err=%q", wantApps, wantOrder, wantReads, "")
	if outs[0] != want {
		sig := "wrong-closure"
		if strings.Contains(outs[0], fmt.Sprintf("apps=%v ", wantApps)) {
			sig = "order-or-reads"
		}
		return fail(sig, fmt.Sprintf("result %s, expected %s", outs[0], want))
	}
	return o
}
