package props

// C15 — data-model diagrams contain every type, field and relationship.

import (
	"encoding/json"
	"fmt"
	"io"
	"regexp"
	"runtime/debug"
	"sort"
	"strings"
	"time"

	"github.com/sirupsen/logrus"

	"github.com/anz-bank/sysl/pkg/cmdutils"
	"github.com/anz-bank/sysl/pkg/datamodeldiagram"
	"github.com/anz-bank/sysl/pkg/parse"
	"github.com/anz-bank/sysl/pkg/sysl"
	"verif/engine/core"
)

type c15 struct{}

func init() { core.Register(c15{}) }

func (c15) ID() string     { return "C15" }
func (c15) Binary() string { return "ov" } // map iteration order pinned (the generator ranges over maps; C19 varies the order)
func (c15) Level() string  { return "exploration" }
func (c15) Rule() string {
	return "data models of two applications: type A.T1 (tuple or table) with two fields, each from a descriptor alphabet (primitive, optional, set/sequence of primitive, local reference, cross-application reference, set/sequence of reference, self reference, Table.field reference, reference to a dotted nested type), a second local type of every kind (tuple, table, primitive alias, enum), a type in application B whose name is distinct / equals A's second type / equals T1, and a dotted nested type; both the per-application and the whole-model diagram. Non-trivial = diagram with at least one relationship line; distinct by model"
}
func (c15) Assumptions() []string {
	return []string{
		"a diagram covers tuples, tables, primitive aliases and enums; collection/reference aliases and unions are not covered by the generator and are not expected",
		"a self reference is neither required nor forbidden to be drawn ('another drawn type')",
		"field types are compared by kind marker (primitive name, Set/Sequence/List wrapper, referenced type name)",
	}
}
func (c15) CaseTimeout() time.Duration { return 3 * time.Minute }
func (c15) InitWorker() {
	logrus.SetOutput(io.Discard)
	debug.SetMaxStack(64 << 20)
}

type c15Case struct {
	K1    string `json:"k1"`    // type | table
	K2    string `json:"k2"`    // type | table | alias | enum
	NameB string `json:"nameb"` // name of B's type
	KB    string `json:"kb"`
	F     int    `json:"f"`
	G     int    `json:"g"`
}

// descriptors for fields of A.T1; %2 = A's second type (T2), %B = B's type
var c15Descs = []string{
	"int", "string?", "set of int", "sequence of string",
	"T2", "B.%B", "set of T2", "sequence of B.%B", "T1", "T2.x", "sequence of T2", "Outer%2EInner", "T2?", "Outer.Inner",
}

func (c15) Bounds(tier string) map[string]interface{} {
	return map[string]interface{}{"descriptors": c15Descs}
}

func (c15) Cases(tier string, emit func(string, interface{})) {
	for _, k1 := range []string{"type", "table"} {
		for _, k2 := range []string{"type", "table", "alias", "enum"} {
			for _, nb := range []string{"U", "T2", "T1"} {
				for _, kb := range []string{"type", "table"} {
					for f := range c15Descs {
						for g := range c15Descs {
							if tier != "thorough" && kb == "table" && nb != "U" && !(f == 0 && g <= 5) {
								continue // quick keeps a few colliding-name table models (primitive and reference fields)
							}
							if k1 == "type" && (c15Descs[f] == "T2.x" || c15Descs[g] == "T2.x") {
								continue // Type.field is the foreign-key idiom of tables
							}
							emit("model", c15Case{K1: k1, K2: k2, NameB: nb, KB: kb, F: f, G: g})
						}
					}
				}
			}
		}
	}
}

func c15Source(cs c15Case) string {
	d := func(i int) string { return strings.ReplaceAll(c15Descs[i], "%B", cs.NameB) }
	var b strings.Builder
	fmt.Fprintf(&b, "A:\n    !%s T1:\n        f <: %s\n        g <: %s\n        k <: int [~pk]\n", cs.K1, d(cs.F), d(cs.G))
	switch cs.K2 {
	case "type", "table":
		fmt.Fprintf(&b, "    !%s T2:\n        x <: int [~pk]\n        y <: string\n", cs.K2)
	case "alias":
		b.WriteString("    !alias T2:\n        int\n")
	case "enum":
		b.WriteString("    !enum T2:\n        X: 1\n        Y: 2\n")
	}
	b.WriteString("    !type Outer%2EInner:\n        n <: int\n    !type Outer:\n        o <: int\n")
	fmt.Fprintf(&b, "B:\n    !%s %s:\n        z <: int [~pk]\n", cs.KB, cs.NameB)
	// an application whose name begins with another application's name: its types belong to neither A's
	// nor B's diagram
	b.WriteString("AZ:\n    !type Extra:\n        e <: int\n")
	return b.String()
}

var (
	reClass = regexp.MustCompile(`^class "(.*)" as (_\d+) << \(D,orchid\)(.*)>> \{$`)
	reEnum  = regexp.MustCompile(`^enum "(.*)" as (_\d+) \{$`)
	reField = regexp.MustCompile(`^\+ (\S+) : (.*)$`)
	reRel   = regexp.MustCompile(`^(_\d+) (\*--|\}--) "(.*)" (_\d+)$`)
)

type dmClass struct {
	Name   string
	Alias  string
	Kind   string // class, enum
	Fields map[string]string
	Items  []string
}

func readClassDiagram(d string) (classes []*dmClass, rels [][2]string, gap string) {
	var cur *dmClass
	for n, raw := range strings.Split(d, "\n") {
		line := strings.TrimSpace(raw)
		switch {
		case line == "" || strings.HasPrefix(line, "'") || line == "@startuml" || line == "@enduml" || strings.HasPrefix(line, "title "):
		case reClass.MatchString(line):
			m := reClass.FindStringSubmatch(line)
			cur = &dmClass{Name: m[1], Alias: m[2], Kind: "class", Fields: map[string]string{}}
			classes = append(classes, cur)
		case reEnum.MatchString(line):
			m := reEnum.FindStringSubmatch(line)
			cur = &dmClass{Name: m[1], Alias: m[2], Kind: "enum", Fields: map[string]string{}}
			classes = append(classes, cur)
		case line == "}":
			cur = nil
		case cur != nil && reField.MatchString(line):
			m := reField.FindStringSubmatch(line)
			if _, dup := cur.Fields[m[1]]; dup {
				cur.Fields[m[1]+"#dup"] = m[2]
			}
			cur.Fields[m[1]] = m[2]
		case cur != nil && cur.Kind == "enum":
			cur.Items = append(cur.Items, line)
		case reRel.MatchString(line):
			m := reRel.FindStringSubmatch(line)
			rels = append(rels, [2]string{m[1], m[4]})
		default:
			return nil, nil, fmt.Sprintf("unreadable diagram line %d: %q", n+1, line)
		}
	}
	return
}

// resolveRef: the model type a reference denotes, as "App.Type" ("" if it denotes nothing drawn).
func resolveRef(m *sysl.Module, curApp string, t *sysl.Type) string {
	switch x := t.GetType().(type) {
	case *sysl.Type_Set:
		return resolveRef(m, curApp, x.Set)
	case *sysl.Type_Sequence:
		return resolveRef(m, curApp, x.Sequence)
	case *sysl.Type_List_:
		return resolveRef(m, curApp, x.List.GetType())
	case *sysl.Type_TypeRef:
		r := x.TypeRef.GetRef()
		app := strings.Join(r.GetAppname().GetPart(), " :: ")
		path := r.GetPath()
		if app == "" {
			app = curApp
		}
		a := m.Apps[app]
		if a == nil || len(path) == 0 {
			return ""
		}
		// longest prefix of the path that names a type (dotted nested names)
		for n := len(path); n >= 1; n-- {
			name := strings.Join(path[:n], ".")
			if _, ok := a.Types[name]; ok {
				return app + "." + name
			}
		}
	}
	return ""
}

func drawnKind(t *sysl.Type) string {
	switch x := t.GetType().(type) {
	case *sysl.Type_Tuple_:
		return "tuple"
	case *sysl.Type_Relation_:
		return "table"
	case *sysl.Type_Enum_:
		return "enum"
	case *sysl.Type_Primitive_:
		if x.Primitive != sysl.Type_NO_Primitive {
			return "alias"
		}
	}
	return ""
}

func (c15) Run(c core.Case) core.Outcome {
	var cs c15Case
	_ = json.Unmarshal(c.Data, &cs)
	var o core.Outcome
	o.Class = "ok"
	src := c15Source(cs)
	m, err := parse.NewParser().ParseString(src)
	if err != nil {
		o.Class = "does-not-compile"
		return o
	}
	lg := logrus.New()
	lg.SetOutput(io.Discard)
	rels := 0
	for _, mode := range []string{"whole", "perapp"} {
		out := "all"
		if mode == "perapp" {
			out = "%(epname)"
		}
		var res map[string]string
		var gerr error
		crash := ""
		func() {
			defer func() {
				if r := recover(); r != nil {
					crash = fmt.Sprintf("%v\n%s", r, debug.Stack())
				}
			}()
			res, gerr = datamodeldiagram.GenerateDataModels(&cmdutils.CmdContextParamDatagen{Output: out, Direct: true, ClassFormat: "%(classname)"}, m, lg)
		}()
		fail := func(sig, msg string) core.Outcome {
			o.Class = "violation"
			o.Violation = fmt.Sprintf("model:\n%smode %s: %s", src, mode, msg)
			o.Sig = sig
			return o
		}
		if crash != "" {
			msg, frame := core.CrashSig("panic: " + crash)
			return fail("crash|"+frame+"|"+msg, "generation panicked: "+strings.SplitN(crash, "\n", 2)[0])
		}
		if gerr != nil {
			return fail("error", "generation failed: "+gerr.Error())
		}
		for key, text := range res {
			covered := map[string]bool{}
			if mode == "whole" {
				for an := range m.Apps {
					covered[an] = true
				}
			} else {
				covered[key] = true
			}
			classes, lines, gap := readClassDiagram(text)
			if gap != "" {
				o.Gap = gap
				return o
			}
			byName := map[string][]*dmClass{}
			byAlias := map[string][]*dmClass{}
			for _, cl := range classes {
				byName[cl.Name] = append(byName[cl.Name], cl)
				byAlias[cl.Alias] = append(byAlias[cl.Alias], cl)
			}
			for a, cls := range byAlias {
				if len(cls) > 1 {
					return fail("alias-collision", fmt.Sprintf("classes %q and %q share the alias %s\n%s", cls[0].Name, cls[1].Name, a, text))
				}
			}
			// expected classes
			expected := map[string]string{}
			var names []string
			for an, app := range m.Apps {
				if !covered[an] {
					continue
				}
				for tn, t := range app.Types {
					if k := drawnKind(t); k != "" {
						expected[an+"."+tn] = k
						names = append(names, an+"."+tn)
					}
				}
			}
			sort.Strings(names)
			for _, n := range names {
				if len(byName[n]) != 1 {
					return fail("class-count|"+expected[n], fmt.Sprintf("%s %s is declared %d time(s) in the diagram\n%s", expected[n], n, len(byName[n]), text))
				}
			}
			for n := range byName {
				if _, ok := expected[n]; !ok {
					return fail("extra-class", fmt.Sprintf("class %q is not a covered type of the model\n%s", n, text))
				}
			}
			// fields and relationships
			wantRel := map[[2]string]int{}
			loose := map[[2]string]bool{}
			for _, n := range names {
				an := strings.SplitN(n, ".", 2)[0]
				t := m.Apps[an].Types[strings.SplitN(n, ".", 2)[1]]
				var fields map[string]*sysl.Type
				if x := t.GetTuple(); x != nil {
					fields = x.GetAttrDefs()
				}
				if x := t.GetRelation(); x != nil {
					fields = x.GetAttrDefs()
				}
				cl := byName[n][0]
				for fn, ft := range fields {
					got, ok := cl.Fields[fn]
					if !ok {
						return fail("missing-field|"+expected[n], fmt.Sprintf("field %s.%s is not listed\n%s", n, fn, text))
					}
					want := ""
					switch x := ft.GetType().(type) {
					case *sysl.Type_Primitive_:
						want = strings.ToLower(x.Primitive.String())
					case *sysl.Type_Set:
						want = "Set <"
					case *sysl.Type_Sequence:
						want = "Sequence <"
					case *sysl.Type_TypeRef:
						p := x.TypeRef.GetRef().GetPath()
						want = p[len(p)-1]
						// a plain reference is listed by the name it was written with: [application.]path, once
						full := strings.Join(append(append([]string{}, x.TypeRef.GetRef().GetAppname().GetPart()...), p...), ".")
						if t.GetTuple() != nil && !strings.Contains(got, "**"+full+"**") && !strings.Contains(got, " "+full) && strings.TrimSpace(got) != full {
							return fail("field-label|"+expected[n], fmt.Sprintf("field %s.%s refers to %s but is listed as %q\n%s", n, fn, full, got, text))
						}
					}
					if !strings.Contains(got, want) {
						return fail("field-type|"+expected[n], fmt.Sprintf("field %s.%s is listed as %q, expected a type mentioning %q\n%s", n, fn, got, want, text))
					}
					if r := ft.GetTypeRef().GetRef(); r != nil && r.GetAppname() == nil && len(r.GetPath()) > 1 && t.GetTuple() != nil {
						// 'Outer.Inner' written in a tuple field names either the nested type Outer.Inner or the
						// member Inner of Outer: which relationship it stands for is not fixed by the property
						loose[[2]string{n, an + "." + r.GetPath()[0]}] = true
						loose[[2]string{n, an + "." + strings.Join(r.GetPath(), ".")}] = true
					} else if tgt := resolveRef(m, an, ft); tgt != "" && tgt != n {
						if _, drawn := expected[tgt]; drawn {
							wantRel[[2]string{n, tgt}]++
						}
					}
				}
				for fn := range cl.Fields {
					if strings.HasSuffix(fn, "#dup") {
						return fail("duplicate-field", fmt.Sprintf("field %s listed twice in %s\n%s", fn, n, text))
					}
					if _, ok := fields[fn]; !ok {
						return fail("extra-field", fmt.Sprintf("class %s lists field %q which the model does not contain\n%s", n, fn, text))
					}
				}
			}
			gotRel := map[[2]string]int{}
			for _, l := range lines {
				a, b := byAlias[l[0]], byAlias[l[1]]
				if len(a) != 1 || len(b) != 1 {
					return fail("relationship-to-undeclared", fmt.Sprintf("relationship line %v refers to an alias that is not a declared class\n%s", l, text))
				}
				if a[0].Name == b[0].Name {
					continue // self reference: not asserted
				}
				gotRel[[2]string{a[0].Name, b[0].Name}]++
				rels++
			}
			for k, w := range wantRel {
				if loose[k] {
					continue
				}
				if gotRel[k] != w {
					kind := "relationship-missing"
					if gotRel[k] > w {
						kind = "relationship-extra"
					}
					sig := kind + "|" + expected[k[0]] + "->" + expected[k[1]]
					if expected[k[0]] == "table" {
						sig = "relationship|table-owner"
					}
					return fail(sig, fmt.Sprintf("%d field(s) of %s refer to %s but %d relationship line(s) are drawn\n%s", w, k[0], k[1], gotRel[k], text))
				}
			}
			for k, g := range gotRel {
				if loose[k] {
					continue
				}
				if wantRel[k] == 0 {
					sig := "relationship-unfounded|" + expected[k[0]] + "->" + expected[k[1]]
					if expected[k[0]] == "table" {
						sig = "relationship|table-owner"
					}
					return fail(sig, fmt.Sprintf("%d relationship line(s) %s -> %s but no field refers to it\n%s", g, k[0], k[1], text))
				}
			}
		}
	}
	if rels > 0 {
		o.NonTrivial = core.Hash(src)
	}
	return o
}
