package props

// C17 — the relational model handed to transforms is a lossless image of the model.
// relmod.Normalize on every model; oracle: an independent census of the module (one expected
// row per construct) equals the rows of the schema; two runs give the same relations.

import (
	"context"
	"encoding/json"
	"fmt"
	"io"
	"regexp"
	"sort"
	"strings"
	"time"

	"github.com/sirupsen/logrus"

	"github.com/arr-ai/arrai/rel"

	"github.com/anz-bank/sysl/pkg/arrai/relmod"
	"github.com/anz-bank/sysl/pkg/parse"
	"github.com/anz-bank/sysl/pkg/sysl"
	"verif/engine/core"
	"verif/engine/gen"
)

type c17 struct{}

func init() { core.Register(c17{}) }

func (c17) ID() string    { return "C17" }
func (c17) Level() string { return "exploration" }
func (c17) Rule() string {
	return "models = every compiling .sysl file of the repository + C02 families L2-L5 + a return-payload sweep (status x type form x attribute forms) + complete statement trees to depth 5 with >=2 siblings per level; for each, relmod.Normalize twice; rows of every relation are compared with an independent census of the module. Non-trivial = at least 5 census rows; distinct by model"
}
func (c17) Assumptions() []string {
	return []string{
		"representation choices relmod documents are part of the census: a one-of statement is one row per choice (no row for the statement itself), '...' placeholders (endpoint or action) produce no row, pubsub endpoints are events, unions have a type row only",
		"a refusal (error) is acceptable; only crashes, nondeterminism and wrong/missing/duplicated rows are violations",
	}
}
func (c17) CaseTimeout() time.Duration { return 180 * time.Second }
func (c17) InitWorker()                { logrus.SetOutput(io.Discard) }

func (c17) Bounds(tier string) map[string]interface{} {
	return map[string]interface{}{"deep_tree_depth": 5, "payload_forms": len(c17Payloads())}
}

func c17Payloads() []string {
	var out []string
	statuses := []string{"ok", "error", "200", "404"}
	types := []string{"", "string", "T", "Other.U", "sequence of T", "set of Other.U", "int"}
	attrs := []string{"", " [~x]", " [k=\"v\"]", " [k=[\"a\", \"b\"]]", " [k=[[\"a\"], [\"b\", \"c\"]]]", " [mediatype=\"json\", ~x, ~y]"}
	for _, s := range statuses {
		for _, t := range types {
			for _, a := range attrs {
				p := s
				if t != "" {
					p += " <: " + t
				}
				out = append(out, p+a)
			}
		}
	}
	return out
}

func deepTree(depth int) []*gen.Stmt {
	if depth == 0 {
		return []*gen.Stmt{{Kind: "action", Text: "leaf a"}, {Kind: "action", Text: "leaf b"}, {Kind: "call", Target: []string{"Other"}, Endpoint: "Ep2"}}
	}
	kinds := []string{"if", "foreach", "while", "group", "oneof", "loopn", "forin"}
	k1, k2 := kinds[depth%len(kinds)], kinds[(depth+3)%len(kinds)]
	return []*gen.Stmt{{Kind: "action", Text: fmt.Sprintf("d%d a", depth)}, mkBlockC17(k1, deepTree(depth-1)), mkBlockC17(k2, deepTree(depth-1)), {Kind: "action", Text: fmt.Sprintf("d%d z", depth)}}
}

func mkBlockC17(k string, kids []*gen.Stmt) *gen.Stmt {
	if k == "oneof" {
		return &gen.Stmt{Kind: "oneof", Cases: []*gen.Stmt{{Kind: "case", Text: "c1", Kids: kids}, {Kind: "case", Text: "c2", Kids: []*gen.Stmt{{Kind: "action", Text: "other 1"}, {Kind: "action", Text: "other 2"}}}}}
	}
	txt := map[string]string{"if": "c", "foreach": "x", "while": "w", "group": "g", "loopn": "2", "forin": "i in xs"}[k]
	return &gen.Stmt{Kind: k, Text: txt, Kids: kids}
}

func (c17) Cases(tier string, emit func(string, interface{})) {
	full := tier == "thorough"
	// payload sweep, packed 12 per endpoint
	ps := c17Payloads()
	for i := 0; i < len(ps); i += 12 {
		var ss []*gen.Stmt
		for j := i; j < i+12 && j < len(ps); j++ {
			ss = append(ss, &gen.Stmt{Kind: "ret", Text: ps[j]})
		}
		a := &gen.App{Name: []string{"A"}, Types: []*gen.TypeDecl{{Kind: "type", Name: "T", Fields: []*gen.Field{{Name: "f", T: gen.TypeExpr{Prim: "int"}}}}}, Eps: []*gen.Endpoint{{Kind: "simple", Name: "Ep", Stmts: ss}}}
		emit("payload", c09Case{Spec: &gen.Spec{Apps: []*gen.App{a, {Name: []string{"Other"}, Types: []*gen.TypeDecl{{Kind: "type", Name: "U", Fields: []*gen.Field{{Name: "z", T: gen.TypeExpr{Prim: "int"}}}}}}}}, Lab: fmt.Sprintf("payload-%d", i)})
	}
	// the same payload texts in three applications that each declare their own T (a result that
	// depends on the enclosing application must not be shared between applications)
	for i := 0; i < len(ps); i += 12 {
		mk := func(name ...string) *gen.App {
			var ss []*gen.Stmt
			for j := i; j < i+12 && j < len(ps); j++ {
				ss = append(ss, &gen.Stmt{Kind: "ret", Text: ps[j]})
			}
			return &gen.App{Name: name, Types: []*gen.TypeDecl{{Kind: "type", Name: "T", Fields: []*gen.Field{{Name: "f", T: gen.TypeExpr{Prim: "int"}}}}},
				Eps: []*gen.Endpoint{{Kind: "simple", Name: "Ep", Stmts: ss}, {Kind: "simple", Name: "Ep2", Stmts: []*gen.Stmt{{Kind: "if", Text: "c", Kids: ss[:2]}}}}}
		}
		other := &gen.App{Name: []string{"Other"}, Types: []*gen.TypeDecl{{Kind: "type", Name: "U", Fields: []*gen.Field{{Name: "z", T: gen.TypeExpr{Prim: "int"}}}}}}
		emit("payload3", c09Case{Spec: &gen.Spec{Apps: []*gen.App{mk("Ns", "B"), mk("A"), mk("Zed"), other}}, Lab: fmt.Sprintf("payload3-%d", i)})
	}
	// parameters carrying one, two and three tags in every order (the first declared tag is the
	// parameter's location)
	{
		tagPool := []string{"header", "body", "deprecated", "audited", "zed"}
		var prms []*gen.Param
		n := 0
		mkp := func(tags ...string) {
			var as []gen.Attr
			for _, t := range tags {
				as = append(as, gen.Attr{Key: t, Tag: true})
			}
			prms = append(prms, &gen.Param{Name: fmt.Sprintf("p%d", n), T: gen.TypeExpr{Prim: "string"}, Attrs: as})
			n++
		}
		for _, t1 := range tagPool {
			mkp(t1)
			for _, t2 := range tagPool {
				if t1 != t2 {
					mkp(t1, t2)
					mkp(t1, t2, "mid")
				}
			}
		}
		for i := 0; i < len(prms); i += 9 {
			j := i + 9
			if j > len(prms) {
				j = len(prms)
			}
			a := &gen.App{Name: []string{"Ns", "P"}, Eps: []*gen.Endpoint{
				{Kind: "simple", Name: "Ep", Params: prms[i:j], Stmts: []*gen.Stmt{{Kind: "action", Text: "x"}}},
				{Kind: "rest", Method: "POST", Path: []gen.PathSeg{{Static: "r"}}, Params: prms[i:j], Stmts: []*gen.Stmt{{Kind: "action", Text: "x"}}},
				{Kind: "event", Name: "Ev", Params: prms[i:j], Stmts: []*gen.Stmt{{Kind: "action", Text: "x"}}},
			}}
			emit("paramtags", c09Case{Spec: &gen.Spec{Apps: []*gen.App{a}}, Lab: fmt.Sprintf("paramtags-%d", i)})
		}
	}
	// mixins: the types an application takes over from another keep pointing at that application's types
	for i, t := range []string{
		"Base:\n    !type Inner:\n        v <: int\n    !type Outer:\n        inner <: Inner\n        many <: sequence of Inner\n        opt <: Inner?\n        other <: Lib.Thing\n    !alias Al:\n        sequence of Inner\nLib:\n    !type Thing:\n        t <: int\nNS :: User:\n    -|> Base\n    !type Own:\n        o <: Outer\n        p <: Inner\n    Ep (q <: Outer):\n        return ok <: Outer\nSecond:\n    -|> Base\n    !type Inner:\n        mine <: string\n",
		c07Src5,
	} {
		emit("mixinrefs", c09Case{Text: t, Lab: fmt.Sprintf("mixinrefs-%d", i)})
	}
	for _, p := range ps {
		a := &gen.App{Name: []string{"A"}, Types: []*gen.TypeDecl{{Kind: "type", Name: "T", Fields: []*gen.Field{{Name: "f", T: gen.TypeExpr{Prim: "int"}}}}}, Eps: []*gen.Endpoint{{Kind: "simple", Name: "Ep", Stmts: []*gen.Stmt{{Kind: "ret", Text: p}}}}}
		emit("payload1", c09Case{Spec: &gen.Spec{Apps: []*gen.App{a}}, Lab: "payload " + p})
	}
	for d := 1; d <= 5; d++ {
		for ci, c := range []string{"simple", "rest"} {
			e := &gen.Endpoint{Kind: "simple", Name: "Ep", Stmts: deepTree(d)}
			if c == "rest" {
				e = &gen.Endpoint{Kind: "rest", Method: "GET", Path: []gen.PathSeg{{Static: "r"}}, Stmts: deepTree(d)}
			}
			a := &gen.App{Name: []string{"Ns", "A"}, Eps: []*gen.Endpoint{e}}
			emit("deep", c09Case{Spec: &gen.Spec{Apps: []*gen.App{a}}, Lab: fmt.Sprintf("deep-%d-%d", d, ci)})
		}
	}
	var specs []gen.Labeled
	specs = append(specs, gen.L2()...)
	specs = append(specs, gen.L4(full)...)
	specs = append(specs, gen.L5()...)
	l3 := gen.L3(full)
	for i, l := range l3 {
		if full || i%4 == 0 || strings.Contains(l.Label, "width") {
			specs = append(specs, l)
		}
	}
	for _, l := range gen.L1() {
		if strings.Contains(l.Label, "packed") {
			specs = append(specs, l)
		}
	}
	for _, l := range specs {
		emit("gen", c09Case{Spec: l.Spec, Lab: l.Label})
	}
	for _, f := range repoSyslFiles() {
		emit("corpus", c09Case{File: f, Lab: f})
	}
}

func parts(p []string) string { return strings.Join(p, " :: ") }

func relTypeCanon(t interface{}) string {
	switch x := t.(type) {
	case nil:
		return "none"
	case relmod.TypePrimitive:
		return x.Primitive
	case relmod.TypeRef:
		return "ref(" + parts(x.AppName) + ";" + strings.Join(x.TypePath, ".") + ")"
	case relmod.TypeSet:
		return "set of " + relTypeCanon(x.Set)
	case relmod.TypeSequence:
		return "sequence of " + relTypeCanon(x.Sequence)
	case relmod.TypeTuple:
		return "tuple"
	}
	return fmt.Sprintf("%T", t)
}

// censusType: what parse of a model type should look like in relmod terms (independent of relmod code).
func censusType(app *sysl.Application, t *sysl.Type) string {
	if t == nil {
		return "none"
	}
	switch x := t.GetType().(type) {
	case *sysl.Type_Primitive_:
		return x.Primitive.String()
	case *sysl.Type_TypeRef:
		r := x.TypeRef.GetRef()
		an := r.GetAppname().GetPart()
		if r.GetAppname() == nil {
			if x.TypeRef.GetContext() != nil {
				an = x.TypeRef.GetContext().GetAppname().GetPart()
			} else {
				an = app.GetName().GetPart()
			}
		}
		return "ref(" + parts(an) + ";" + strings.Join(r.GetPath(), ".") + ")"
	case *sysl.Type_Set:
		return "set of " + censusType(app, x.Set)
	case *sysl.Type_Sequence:
		return "sequence of " + censusType(app, x.Sequence)
	case *sysl.Type_List_:
		return censusType(app, x.List.GetType())
	case *sysl.Type_Tuple_:
		return "tuple"
	}
	return "none"
}

// attrVal: census form of an attribute value. arr.ai has one empty value: the empty string and the
// empty array are both the empty set, which is a property of the target data model.
func attrVal(a *sysl.Attribute) string {
	switch x := a.GetAttribute().(type) {
	case *sysl.Attribute_S:
		if x.S == "" {
			return "empty"
		}
		return fmt.Sprintf("s:%q", x.S)
	case *sysl.Attribute_A:
		if len(x.A.GetElt()) == 0 {
			return "empty"
		}
		var p []string
		for _, e := range x.A.GetElt() {
			p = append(p, attrVal(e))
		}
		return "a:[" + strings.Join(p, ",") + "]"
	case *sysl.Attribute_I:
		return fmt.Sprintf("n:%v", float64(x.I))
	case *sysl.Attribute_N:
		return fmt.Sprintf("n:%v", x.N)
	}
	return "none"
}

func relAnnoVal(v interface{}) string {
	switch x := v.(type) {
	case rel.String:
		return fmt.Sprintf("s:%q", x.String())
	case rel.Number:
		return fmt.Sprintf("n:%v", x.Float64())
	case rel.Array:
		var p []string
		for _, e := range x.Values() {
			p = append(p, relAnnoVal(e))
		}
		return "a:[" + strings.Join(p, ",") + "]"
	case rel.Value:
		if !x.IsTrue() {
			return "empty"
		}
		return "value:" + x.String()
	case string:
		return fmt.Sprintf("s:%q", x)
	case int64:
		return fmt.Sprintf("i:%d", x)
	case float64:
		return fmt.Sprintf("n:%v", x)
	case []interface{}:
		var p []string
		for _, e := range x {
			p = append(p, relAnnoVal(e))
		}
		return "a:[" + strings.Join(p, ",") + "]"
	}
	return fmt.Sprintf("%T:%v", v, v)
}

func censusMeta(out *[]string, kind, key string, attrs map[string]*sysl.Attribute) {
	for k, v := range attrs {
		if k == "patterns" {
			for _, e := range v.GetA().GetElt() {
				*out = append(*out, fmt.Sprintf("tag %s %s %s", kind, key, e.GetS()))
			}
			continue
		}
		*out = append(*out, fmt.Sprintf("anno %s %s %s=%s", kind, key, k, attrVal(v)))
	}
}

// refRetDetail: reference reading of a return payload 'status <: type [attrs]' for the shapes it
// recognises (ok=false otherwise: the row is then compared by position and kind only).
// status: ok | error | three digits; type: primitive | [App.]Type | set of / sequence of those;
// attrs: ~modifier and name="string" / name=[arrays of strings, nested].
func refRetDetail(m *sysl.Module, app *sysl.Application, payload string) (string, bool) {
	rest := strings.TrimSpace(payload)
	attrs := ""
	if i := strings.Index(rest, "["); i >= 0 {
		if !strings.HasSuffix(rest, "]") {
			return "", false
		}
		attrs = strings.TrimSpace(rest[i:])
		rest = strings.TrimSpace(rest[:i])
	}
	status, typ := rest, ""
	if i := strings.Index(rest, "<:"); i >= 0 {
		status, typ = strings.TrimSpace(rest[:i]), strings.TrimSpace(rest[i+2:])
	}
	if !regexp.MustCompile(`^(ok|error|[1-5][0-9][0-9])$`).MatchString(status) {
		return "", false
	}
	var canon func(t string) (string, bool)
	canon = func(t string) (string, bool) {
		switch {
		case t == "":
			return "none", true
		case strings.HasPrefix(t, "set of "):
			in, ok := canon(strings.TrimSpace(t[7:]))
			return "set of " + in, ok
		case strings.HasPrefix(t, "sequence of "):
			in, ok := canon(strings.TrimSpace(t[12:]))
			return "sequence of " + in, ok
		}
		if !regexp.MustCompile(`^[A-Za-z_][A-Za-z0-9_]*(\.[A-Za-z_][A-Za-z0-9_]*)?$`).MatchString(t) {
			return "", false
		}
		for _, prim := range []string{"int", "string", "bool", "float", "decimal", "date", "datetime", "bytes", "any"} {
			if t == prim {
				return "prim:" + prim, true
			}
		}
		if i := strings.Index(t, "."); i >= 0 {
			a, n := t[:i], t[i+1:]
			if other := m.GetApps()[a]; other != nil && other.GetTypes()[n] != nil && app.GetTypes()[a] == nil {
				return "ref(" + a + ";" + n + ")", true
			}
			return "", false // Type.field or an unknown application: not modelled
		}
		if app.GetTypes()[t] == nil {
			return "", false
		}
		return "ref(" + parts(app.GetName().GetPart()) + ";" + t + ")", true
	}
	ct, ok := canon(typ)
	if !ok {
		return "", false
	}
	var mods, nvps []string
	if attrs != "" {
		items, ok := splitTopAttr(attrs[1 : len(attrs)-1])
		if !ok {
			return "", false
		}
		for _, it := range items {
			it = strings.TrimSpace(it)
			switch {
			case strings.HasPrefix(it, "~"):
				mods = append(mods, it[1:])
			case strings.Contains(it, "="):
				kv := strings.SplitN(it, "=", 2)
				v, ok := refAttrValue(strings.TrimSpace(kv[1]))
				if !ok {
					return "", false
				}
				nvps = append(nvps, strings.TrimSpace(kv[0])+"="+v)
			default:
				return "", false
			}
		}
	}
	sort.Strings(mods)
	sort.Strings(nvps)
	return fmt.Sprintf("status=%s type=%s mods=%v nvp=%v", status, ct, mods, nvps), true
}

// splitTop splits at commas outside brackets and double quotes.
func splitTopAttr(s string) ([]string, bool) {
	var out []string
	depth, inq, start := 0, false, 0
	for i := 0; i < len(s); i++ {
		switch c := s[i]; {
		case inq && c == '\\':
			return nil, false
		case c == '"':
			inq = !inq
		case inq:
		case c == '[':
			depth++
		case c == ']':
			depth--
		case c == ',' && depth == 0:
			out = append(out, s[start:i])
			start = i + 1
		case c == '\'' || c == '{':
			return nil, false
		}
	}
	if inq || depth != 0 {
		return nil, false
	}
	return append(out, s[start:]), true
}

func refAttrValue(v string) (string, bool) {
	if strings.HasPrefix(v, `"`) && strings.HasSuffix(v, `"`) && len(v) >= 2 && !strings.Contains(v[1:len(v)-1], `"`) {
		return fmt.Sprintf("%q", v[1:len(v)-1]), true
	}
	if strings.HasPrefix(v, "[") && strings.HasSuffix(v, "]") {
		items, ok := splitTopAttr(v[1 : len(v)-1])
		if !ok {
			return "", false
		}
		var out []string
		for _, it := range items {
			x, ok := refAttrValue(strings.TrimSpace(it))
			if !ok {
				return "", false
			}
			out = append(out, x)
		}
		return "[" + strings.Join(out, " ") + "]", true
	}
	return "", false
}

func relAttrValue(v interface{}) string {
	switch x := v.(type) {
	case nil:
		return `""` // arr.ai has one empty value: '' = {} = none

	case string:
		return fmt.Sprintf("%q", x)
	case []interface{}:
		var out []string
		for _, e := range x {
			out = append(out, relAttrValue(e))
		}
		return "[" + strings.Join(out, " ") + "]"
	case []string:
		var out []string
		for _, e := range x {
			out = append(out, fmt.Sprintf("%q", e))
		}
		return "[" + strings.Join(out, " ") + "]"
	case map[string]interface{}:
		// an array value is carried as the tuple (a: [...]), like sysl.Attribute's 'a' arm
		if a, ok := x["a"]; ok && len(x) == 1 {
			return relAttrValue(a)
		}
	}
	return fmt.Sprintf("?%T:%v", v, v)
}

func relRetDetail(r relmod.StatementReturn) string {
	t := relTypeCanon(r.Type)
	var canonPrim func(t interface{}) string
	canonPrim = func(t interface{}) string {
		switch x := t.(type) {
		case relmod.TypePrimitive:
			return "prim:" + strings.ToLower(x.Primitive)
		case relmod.TypeSet:
			return "set of " + canonPrim(x.Set)
		case relmod.TypeSequence:
			return "sequence of " + canonPrim(x.Sequence)
		}
		return relTypeCanon(t)
	}
	t = canonPrim(r.Type)
	mods := append([]string{}, r.Attr.Modifier...)
	sort.Strings(mods)
	var nvps []string
	for k, v := range r.Attr.Nvp {
		nvps = append(nvps, k+"="+relAttrValue(v))
	}
	sort.Strings(nvps)
	return fmt.Sprintf("status=%s type=%s mods=%v nvp=%v", r.Status, t, mods, nvps)
}

func idx(p []int) string {
	s := make([]string, len(p))
	for i, x := range p {
		s[i] = fmt.Sprint(x)
	}
	return strings.Join(s, ".")
}

// dropRetWildcards: return rows whose payload the reference does not read ("retdetail <key> *")
// are compared by position and kind only.
func dropRetWildcards(want, got []string) ([]string, []string) {
	wild := map[string]bool{}
	var w2, g2 []string
	for _, l := range want {
		if strings.HasPrefix(l, "retdetail ") && strings.HasSuffix(l, " *") {
			wild[strings.TrimSuffix(l, "*")] = true
			continue
		}
		w2 = append(w2, l)
	}
	for _, l := range got {
		drop := false
		if strings.HasPrefix(l, "retdetail ") {
			for k := range wild {
				if strings.HasPrefix(l, k) {
					drop = true
				}
			}
		}
		if !drop {
			g2 = append(g2, l)
		}
	}
	return w2, g2
}

func dropRetWildcardsGot(want0, got []string) []string {
	_, g := dropRetWildcards(want0, got)
	return g
}

// Census: the rows a lossless relational image must contain.
func Census(m *sysl.Module) []string {
	var out []string
	add := func(f string, a ...interface{}) { out = append(out, fmt.Sprintf(f, a...)) }
	for _, app := range m.GetApps() {
		an := parts(app.GetName().GetPart())
		add("app %s long=%q doc=%q", an, app.GetLongName(), app.GetDocstring())
		censusMeta(&out, "app", an, app.GetAttrs())
		for _, mx := range app.GetMixin2() {
			add("mixin %s %s", an, parts(mx.GetName().GetPart()))
		}
		for _, ep := range app.GetEndpoints() {
			if ep.GetName() == "..." {
				continue
			}
			ek := an + "|" + ep.GetName()
			params := func() {
				for i, p := range ep.GetParam() {
					loc := "method"
					for _, e := range p.GetType().GetAttrs()["patterns"].GetA().GetElt() {
						loc = e.GetS()
						break
					}
					add("param %s %s %s %d type=%s opt=%v", ek, p.GetName(), loc, i, censusType(app, p.GetType()), p.GetType().GetOpt())
					censusMeta(&out, "param", fmt.Sprintf("%s %s %s %d", ek, p.GetName(), loc, i), p.GetType().GetAttrs())
				}
			}
			if ep.GetIsPubsub() {
				add("event %s", ek)
				params()
				censusMeta(&out, "event", ek, ep.GetAttrs())
				continue
			}
			rest := ""
			if rp := ep.GetRestParams(); rp != nil {
				rest = rp.GetMethod().String() + " " + rp.GetPath()
			}
			src := ""
			if ep.GetSource() != nil {
				src = parts(ep.GetSource().GetPart())
			}
			add("ep %s long=%q doc=%q rest=%q source=%q", ek, ep.GetLongName(), ep.GetDocstring(), rest, src)
			censusMeta(&out, "ep", ek, ep.GetAttrs())
			params()
			if rp := ep.GetRestParams(); rp != nil {
				for i, p := range rp.GetUrlParam() {
					add("param %s %s path %d type=%s opt=%v", ek, p.GetName(), i, censusType(app, p.GetType()), p.GetType().GetOpt())
					censusMeta(&out, "param", fmt.Sprintf("%s %s path %d", ek, p.GetName(), i), p.GetType().GetAttrs())
				}
				for i, p := range rp.GetQueryParam() {
					add("param %s %s query %d type=%s opt=%v", ek, p.GetName(), i, censusType(app, p.GetType()), p.GetType().GetOpt())
					censusMeta(&out, "param", fmt.Sprintf("%s %s query %d", ek, p.GetName(), i), p.GetType().GetAttrs())
				}
			}
			var walk func(ss []*sysl.Statement, path []int)
			walk = func(ss []*sysl.Statement, path []int) {
				for i, s := range ss {
					p := append(append([]int{}, path...), i)
					switch x := s.GetStmt().(type) {
					case *sysl.Statement_Action:
						if x.Action.GetAction() == "..." {
							continue
						}
						add("stmt %s %s action %q", ek, idx(p), x.Action.GetAction())
					case *sysl.Statement_Call:
						add("stmt %s %s call %s <- %s", ek, idx(p), parts(x.Call.GetTarget().GetPart()), x.Call.GetEndpoint())
					case *sysl.Statement_Cond:
						add("stmt %s %s cond %q", ek, idx(p), x.Cond.GetTest())
						walk(x.Cond.GetStmt(), p)
					case *sysl.Statement_Loop:
						add("stmt %s %s loop %s %q", ek, idx(p), x.Loop.GetMode(), x.Loop.GetCriterion())
						walk(x.Loop.GetStmt(), p)
					case *sysl.Statement_LoopN:
						add("stmt %s %s loopn %d", ek, idx(p), x.LoopN.GetCount())
						walk(x.LoopN.GetStmt(), p)
					case *sysl.Statement_Foreach:
						add("stmt %s %s foreach %q", ek, idx(p), x.Foreach.GetCollection())
						walk(x.Foreach.GetStmt(), p)
					case *sysl.Statement_Group:
						add("stmt %s %s group %q", ek, idx(p), x.Group.GetTitle())
						walk(x.Group.GetStmt(), p)
					case *sysl.Statement_Ret:
						add("stmt %s %s ret", ek, idx(p))
						if d, ok := refRetDetail(m, app, x.Ret.GetPayload()); ok {
							add("retdetail %s %s %s", ek, idx(p), d)
						} else {
							add("retdetail %s %s *", ek, idx(p))
						}
					case *sysl.Statement_Alt:
						last := p
						for ci, c := range x.Alt.GetChoice() {
							cp := append(append([]int{}, p...), ci)
							add("stmt %s %s alt %q", ek, idx(cp), c.GetCond())
							walk(c.GetStmt(), cp)
							last = cp
						}
						censusMeta(&out, "stmt", ek+" "+idx(last), s.GetAttrs())
						continue
					}
					censusMeta(&out, "stmt", ek+" "+idx(p), s.GetAttrs())
				}
			}
			walk(ep.GetStmt(), nil)
		}
		for tn, t := range app.GetTypes() {
			tk := an + "|" + tn
			add("type %s doc=%q opt=%v", tk, t.GetDocstring(), t.GetOpt())
			censusMeta(&out, "type", tk, t.GetAttrs())
			var fields map[string]*sysl.Type
			switch x := t.GetType().(type) {
			case *sysl.Type_Tuple_:
				fields = x.Tuple.GetAttrDefs()
			case *sysl.Type_Relation_:
				fields = x.Relation.GetAttrDefs()
				add("table %s pk=%v", tk, x.Relation.GetPrimaryKey().GetAttrName())
			case *sysl.Type_Primitive_, *sysl.Type_Sequence, *sysl.Type_Set, *sysl.Type_TypeRef:
				add("alias %s %s", tk, censusType(app, t))
			case *sysl.Type_Enum_:
				var items []string
				for k, v := range x.Enum.GetItems() {
					items = append(items, fmt.Sprintf("%s=%d", k, v))
				}
				sort.Strings(items)
				add("enum %s %v", tk, items)
			}
			for fn, ft := range fields {
				var lmin, lmax int64
				var prec, scale int32
				for _, c := range ft.GetConstraint() {
					if c.GetLength() != nil {
						lmin, lmax = c.GetLength().GetMin(), c.GetLength().GetMax()
					}
					prec, scale = c.GetPrecision(), c.GetScale()
				}
				add("field %s.%s type=%s opt=%v len=%d..%d prec=%d scale=%d", tk, fn, censusType(app, ft), ft.GetOpt(), lmin, lmax, prec, scale)
				censusMeta(&out, "field", tk+"."+fn, ft.GetAttrs())
			}
		}
		for vn, v := range app.GetViews() {
			add("view %s|%s", an, vn)
			censusMeta(&out, "view", an+"|"+vn, v.GetAttrs())
		}
	}
	sort.Strings(out)
	return out
}

func stmtKind(s relmod.Statement) string {
	ek := parts(s.AppName) + "|" + s.EpName
	p := idx(s.StmtIndex)
	switch {
	case s.StmtAction != "":
		return fmt.Sprintf("stmt %s %s action %q", ek, p, s.StmtAction)
	case s.StmtCall != nil:
		an, _ := s.StmtCall["appName"].([]string)
		return fmt.Sprintf("stmt %s %s call %s <- %v", ek, p, parts(an), s.StmtCall["epName"])
	case s.StmtCond != nil:
		return fmt.Sprintf("stmt %s %s cond %q", ek, p, s.StmtCond["test"])
	case s.StmtLoop != nil:
		return fmt.Sprintf("stmt %s %s loop %v %q", ek, p, s.StmtLoop["mode"], s.StmtLoop["criterion"])
	case s.StmtLoopN != nil:
		return fmt.Sprintf("stmt %s %s loopn %v", ek, p, s.StmtLoopN["count"])
	case s.StmtForeach != nil:
		return fmt.Sprintf("stmt %s %s foreach %q", ek, p, s.StmtForeach["coll"])
	case s.StmtGroup != nil:
		return fmt.Sprintf("stmt %s %s group %q", ek, p, s.StmtGroup["title"])
	case s.StmtAlt != nil:
		return fmt.Sprintf("stmt %s %s alt %q", ek, p, s.StmtAlt["choice"])
	default:
		return fmt.Sprintf("stmt %s %s ret", ek, p)
	}
}

// SchemaRows renders the relations in the census format.
func SchemaRows(s *relmod.Schema) []string {
	var out []string
	add := func(f string, a ...interface{}) { out = append(out, fmt.Sprintf(f, a...)) }
	for _, a := range s.App {
		add("app %s long=%q doc=%q", parts(a.AppName), a.AppLongName, a.AppDocstring)
	}
	for _, m := range s.Mixin {
		add("mixin %s %s", parts(m.AppName), parts(m.MixinName))
	}
	for _, e := range s.Ep {
		rest := ""
		if e.Rest.Method != "" || e.Rest.Path != "" {
			rest = e.Rest.Method + " " + e.Rest.Path
		}
		add("ep %s|%s long=%q doc=%q rest=%q source=%q", parts(e.AppName), e.EpName, e.EpLongName, e.EpDocstring, rest, parts(e.EpEvent.AppName.Part))
	}
	for _, e := range s.Event {
		add("event %s|%s", parts(e.AppName), e.EventName)
	}
	for _, p := range s.Param {
		add("param %s|%s %s %s %d type=%s opt=%v", parts(p.AppName), p.EpName, p.ParamName, p.ParamLoc, p.ParamIndex, relTypeCanon(p.ParamType), p.ParamOpt)
	}
	for _, st := range s.Stmt {
		if stmtKind(st) == fmt.Sprintf("stmt %s %s ret", parts(st.AppName)+"|"+st.EpName, idx(st.StmtIndex)) {
			out = append(out, fmt.Sprintf("retdetail %s %s %s", parts(st.AppName)+"|"+st.EpName, idx(st.StmtIndex), relRetDetail(st.StmtRet)))
		}
		out = append(out, stmtKind(st))
	}
	for _, t := range s.Type {
		add("type %s|%s doc=%q opt=%v", parts(t.AppName), t.TypeName, t.TypeDocstring, t.TypeOpt)
	}
	for _, t := range s.Table {
		add("table %s|%s pk=%v", parts(t.AppName), t.TypeName, t.Pk)
	}
	for _, a := range s.Alias {
		add("alias %s|%s %s", parts(a.AppName), a.TypeName, relTypeCanon(a.AliasType))
	}
	for _, e := range s.Enum {
		var items []string
		for k, v := range e.EnumItems {
			items = append(items, fmt.Sprintf("%s=%d", k, v))
		}
		sort.Strings(items)
		add("enum %s|%s %v", parts(e.AppName), e.TypeName, items)
	}
	for _, f := range s.Field {
		add("field %s|%s.%s type=%s opt=%v len=%d..%d prec=%d scale=%d", parts(f.AppName), f.TypeName, f.FieldName, relTypeCanon(f.FieldType), f.FieldOpt,
			f.FieldConstraint.Length.Min, f.FieldConstraint.Length.Max, f.FieldConstraint.Precision, f.FieldConstraint.Scale)
	}
	for _, v := range s.View {
		add("view %s|%s", parts(v.AppName), v.ViewName)
	}
	for _, x := range s.Anno.App {
		add("anno app %s %s=%s", parts(x.AppName), x.AppAnnoName, relAnnoVal(x.AppAnnoValue))
	}
	for _, x := range s.Anno.Ep {
		add("anno ep %s|%s %s=%s", parts(x.AppName), x.EpName, x.EpAnnoName, relAnnoVal(x.EpAnnoValue))
	}
	for _, x := range s.Anno.Param {
		add("anno param %s|%s %s %s %d %s=%s", parts(x.AppName), x.EpName, x.ParamName, x.ParamLoc, x.ParamIndex, x.ParamAnnoName, relAnnoVal(x.ParamAnnoValue))
	}
	for _, x := range s.Anno.Stmt {
		add("anno stmt %s|%s %s %s=%s", parts(x.AppName), x.EpName, idx(x.StmtIndex), x.StmtAnnoName, relAnnoVal(x.StmtAnnoValue))
	}
	for _, x := range s.Anno.Event {
		add("anno event %s|%s %s=%s", parts(x.AppName), x.EventName, x.EventAnnoName, relAnnoVal(x.EventAnnoValue))
	}
	for _, x := range s.Anno.Type {
		add("anno type %s|%s %s=%s", parts(x.AppName), x.TypeName, x.TypeAnnoName, relAnnoVal(x.TypeAnnoValue))
	}
	for _, x := range s.Anno.Field {
		add("anno field %s|%s.%s %s=%s", parts(x.AppName), x.TypeName, x.FieldName, x.FieldAnnoName, relAnnoVal(x.FieldAnnoValue))
	}
	for _, x := range s.Anno.View {
		add("anno view %s|%s %s=%s", parts(x.AppName), x.ViewName, x.ViewAnnoName, relAnnoVal(x.ViewAnnoValue))
	}
	for _, x := range s.Tag.App {
		add("tag app %s %s", parts(x.AppName), x.AppTag)
	}
	for _, x := range s.Tag.Ep {
		add("tag ep %s|%s %s", parts(x.AppName), x.EpName, x.EpTag)
	}
	for _, x := range s.Tag.Param {
		add("tag param %s|%s %s %s %d %s", parts(x.AppName), x.EpName, x.ParamName, x.ParamLoc, x.ParamIndex, x.ParamTag)
	}
	for _, x := range s.Tag.Stmt {
		add("tag stmt %s|%s %s %s", parts(x.AppName), x.EpName, idx(x.StmtIndex), x.StmtTag)
	}
	for _, x := range s.Tag.Event {
		add("tag event %s|%s %s", parts(x.AppName), x.EventName, x.EventTag)
	}
	for _, x := range s.Tag.Type {
		add("tag type %s|%s %s", parts(x.AppName), x.TypeName, x.TypeTag)
	}
	for _, x := range s.Tag.Field {
		add("tag field %s|%s.%s %s", parts(x.AppName), x.TypeName, x.FieldName, x.FieldTag)
	}
	for _, x := range s.Tag.View {
		add("tag view %s|%s %s", parts(x.AppName), x.ViewName, x.ViewTag)
	}
	sort.Strings(out)
	return out
}

func multisetDiff(want, got []string) string {
	cw, cg := map[string]int{}, map[string]int{}
	for _, l := range want {
		cw[l]++
	}
	for _, l := range got {
		cg[l]++
	}
	var miss, extra []string
	for _, l := range want {
		if cg[l] < cw[l] {
			miss = append(miss, l)
			cg[l] = cw[l]
		}
	}
	for _, l := range got {
		if cw[l] < cg[l] && cw[l] >= 0 {
			extra = append(extra, l)
			cw[l] = cg[l]
		}
	}
	if len(miss) == 0 && len(extra) == 0 {
		return ""
	}
	lim := func(a []string) []string {
		if len(a) > 4 {
			return append(a[:4:4], fmt.Sprintf("... %d more", len(a)-4))
		}
		return a
	}
	return fmt.Sprintf("missing %q extra %q", lim(miss), lim(extra))
}

func rowClass(diff string) string {
	for _, tag := range []string{"missing [\"", "extra [\""} {
		if i := strings.Index(diff, tag); i >= 0 {
			f := strings.Fields(diff[i+len(tag):])
			if len(f) >= 2 && (f[0] == "anno" || f[0] == "tag") {
				return f[0] + " " + f[1]
			}
			if len(f) >= 1 {
				k := f[0]
				if k == "stmt" {
					// add the statement kind and the depth of its path
					for j, w := range f {
						if j >= 2 && strings.Trim(w, "0123456789.") == "" {
							k += fmt.Sprintf(" depth=%d", strings.Count(w, ".")+1)
							if j+1 < len(f) {
								k += " " + strings.Trim(f[j+1], "\"")
							}
							break
						}
					}
				}
				return strings.SplitN(tag, " ", 2)[0] + " " + k
			}
		}
	}
	return "?"
}

func (c17) Run(c core.Case) core.Outcome {
	var cs c09Case
	_ = json.Unmarshal(c.Data, &cs)
	var o core.Outcome
	var m *sysl.Module
	if cs.File != "" {
		txt, ok := seedText(cs.File)
		if !ok {
			o.Class = "unreadable"
			return o
		}
		mm, _, ok := compileSeed(cs.File, txt)
		if !ok {
			o.Class = "seed-does-not-compile"
			return o
		}
		m = mm
	} else {
		text := cs.Text
		if cs.Spec != nil {
			text = gen.Render(cs.Spec, gen.DefaultLayout).Text
		}
		mm, err, crash := compileFiles(filesCase{Root: "t.sysl", Files: map[string]string{"t.sysl": text}}, parse.Settings{})
		if err != nil || crash != "" {
			o.Class = "does-not-compile"
			return o
		}
		m = mm
	}
	norm := func() (s *relmod.Schema, err error, crash string) {
		defer func() {
			if r := recover(); r != nil {
				crash = fmt.Sprint(r)
			}
		}()
		s, err = relmod.Normalize(context.Background(), m)
		return
	}
	s1, err, crash := norm()
	if crash != "" {
		o.Class = "crash"
		o.Violation = cs.Lab + ": relmod.Normalize panicked: " + crash
		o.Sig = "crash|" + core.MaskMsg(crash)
		return o
	}
	if err != nil {
		o.Class = "refused"
		o.NonTrivial = core.Hash(cs.Lab)
		return o
	}
	want0 := Census(m)
	want, got := dropRetWildcards(want0, SchemaRows(s1))
	if d := multisetDiff(want, got); d != "" {
		o.Class = "rows-differ"
		o.Violation = cs.Lab + ": relational model differs from the census of the module: " + d
		o.Sig = "rows|" + rowClass(d)
		return o
	}
	s2, err2, crash2 := norm()
	if crash2 != "" || err2 != nil {
		o.Class = "unstable"
		o.Violation = fmt.Sprintf("%s: second Normalize of the same model failed: %v %s", cs.Lab, err2, crash2)
		o.Sig = "second-run-fails"
		return o
	}
	if d := multisetDiff(got, dropRetWildcardsGot(want0, SchemaRows(s2))); d != "" {
		o.Class = "unstable"
		o.Violation = cs.Lab + ": two Normalize runs give different relations: " + d
		o.Sig = "nondeterministic|" + rowClass(d)
		return o
	}
	o.Class = "lossless"
	if len(want) >= 5 {
		o.NonTrivial = core.Hash(cs.Lab)
	}
	return o
}
