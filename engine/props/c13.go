package props

// C13 — sequence diagrams terminate, are well-formed and follow the call tree.
// All models whose endpoints take every body of a body alphabet with targets ranging over all
// endpoints (every call graph incl. cycles, self calls, diamonds, calls in nested blocks,
// returns anywhere) x every start x blackbox / grouping options. Oracle: a PlantUML sequence
// reader (declarations, activation balance, calls only while active, blocks closed) and a
// reference walk of the model (calls in source order, a call in progress is shown, not expanded).

import (
	"encoding/json"
	"fmt"
	"io"
	"regexp"
	"runtime/debug"
	"strings"
	"time"

	"github.com/sirupsen/logrus"

	"github.com/anz-bank/sysl/pkg/cmdutils"
	"github.com/anz-bank/sysl/pkg/parse"
	"github.com/anz-bank/sysl/pkg/sequencediagram"
	"github.com/anz-bank/sysl/pkg/sysl"
	"verif/engine/core"
)

type c13 struct{}

func init() { core.Register(c13{}) }

func (c13) ID() string    { return "C13" }
func (c13) Level() string { return "exploration" }
func (c13) Rule() string {
	return "models with 3 (thorough 4) endpoints distributed over applications in several ways; every endpoint body from an alphabet of bodies (empty, action, call, call+return, return+call, repeated call, two targets, calls inside if / if-else / for-each / one-of / group+loop / while, return inside a nested block of the last statement) with call targets ranging over ALL endpoints (so all call graphs, cycles, self calls, diamonds arise); x every endpoint as start x {no option, each endpoint blackboxed, group-by attribute}. Non-trivial = diagram with at least 2 call arrows; distinct by (model, start, option)"
}
func (c13) Assumptions() []string {
	return []string{
		"applications are plain (no ~human / ~cron, for which activation is suppressed by design) and endpoints are simple endpoints with existing targets (dangling targets belong to C20)",
		"the reference walk: emit the call; stop if the target is blackboxed or already in progress on the current call stack; otherwise expand its statements in source order",
	}
}
func (c13) CaseTimeout() time.Duration { return 10 * time.Minute }
func (c13) InitWorker()                { logrus.SetOutput(io.Discard) }

type epRef struct{ App, Ep string }

type c13Case struct {
	Dist  []string `json:"dist"`  // application of endpoint i
	Body0 int      `json:"body0"` // body index of endpoint 0 (the worker loops over all others)
	// Hidden: index+1 of the endpoint marked ~hidden (0 = none): its call arrow is not drawn, everything else is
	Hidden int `json:"hidden,omitempty"`
}

var c13Dists3 = [][]string{{"A", "A", "B"}, {"A", "B", "C"}, {"A", "B", "A"}}
var c13Dists4 = [][]string{{"A", "A", "B", "B"}, {"A", "B", "C", "A"}}

func c13EpName(i int) string { return []string{"x", "y", "z", "w"}[i] }

// body templates: T/U are replaced by "App <- ep" of the targets
var c13Templates1 = []string{
	"T",
	"T\nreturn ok <: string",
	"T\nreturn ok <: Resp",
	"return ok <: string\nT",
	"T\nT",
	"if c:\n    T",
	"for each i:\n    T\nstep",
	"grp:\n    loop 2:\n        T",
	"T\nif c:\n    return ok <: string",
	"step\nwhile c:\n    T\n    return ok <: string",
	"until d:\n    T",
}
var c13Templates2 = []string{
	"T\nU",
	"if c:\n    T\nelse:\n    U",
	"one of:\n    c1:\n        T\n        return ok <: string\n    c2:\n        U\n    c3:\n        T",
}
var c13Templates0 = []string{"...", "step"}

func c13Bodies(dist []string, reduced bool) []string {
	n := len(dist)
	var out []string
	out = append(out, c13Templates0...)
	tgt := func(i int) string { return dist[i] + " <- " + c13EpName(i) }
	t1 := c13Templates1
	t2 := c13Templates2
	if reduced {
		t1 = []string{c13Templates1[0], c13Templates1[1], c13Templates1[2], c13Templates1[5], c13Templates1[8]}
		t2 = []string{c13Templates2[0]}
	}
	for _, t := range t1 {
		for i := 0; i < n; i++ {
			out = append(out, strings.ReplaceAll(t, "T", tgt(i)))
		}
	}
	for _, t := range t2 {
		for i := 0; i < n; i++ {
			for j := 0; j < n; j++ {
				if reduced && i == j {
					continue
				}
				out = append(out, strings.ReplaceAll(strings.ReplaceAll(t, "T", tgt(i)), "U", tgt(j)))
			}
		}
	}
	return out
}

func (c13) Bounds(tier string) map[string]interface{} {
	return map[string]interface{}{"endpoints_quick": 3, "endpoints_thorough": 4, "bodies_3ep": len(c13Bodies(c13Dists3[0], false)), "distributions": append(c13Dists3, c13Dists4...)}
}

func (c13) Cases(tier string, emit func(string, interface{})) {
	for _, d := range c13Dists3 {
		for b := range c13Bodies(d, false) {
			emit("n3", c13Case{Dist: d, Body0: b})
		}
	}
	// one endpoint hidden (first distribution, every third body of endpoint 0)
	for b := range c13Bodies(c13Dists3[0], false) {
		if b%3 == 1 {
			for h := 1; h <= 3; h++ {
				emit("n3h", c13Case{Dist: c13Dists3[0], Body0: b, Hidden: h})
			}
		}
	}
	if tier == "thorough" {
		for _, d := range c13Dists4 {
			for b := range c13Bodies(d, true) {
				emit("n4", c13Case{Dist: d, Body0: b})
			}
		}
	}
}

// parseEndpoint compiles "App [grp=..]:\n  ep:\n <body>" and returns the endpoint proto.
func c13ParseEndpoint(app, ep, body string) (*sysl.Endpoint, error) {
	src := app + ":\n    " + ep + ":\n" + indentLines(body, 2)
	m, err := parse.NewParser().ParseString(src)
	if err != nil {
		return nil, fmt.Errorf("%v\n%s", err, src)
	}
	name := strings.TrimSuffix(ep, " [~hidden]")
	return m.Apps[app].Endpoints[name], nil
}

func indentLines(s string, n int) string {
	pad := strings.Repeat("    ", n)
	var b strings.Builder
	for _, l := range strings.Split(s, "\n") {
		b.WriteString(pad + l + "\n")
	}
	return b.String()
}

var (
	reHead   = regexp.MustCompile(`^(\w+) "(.*)" as (_\d+)$`)
	reCall   = regexp.MustCompile(`^(\[|_\d+)->(_\d+) :\s*(.*)$`)
	reAction = regexp.MustCompile(`^(_\d+) -> (_\d+) :\s*(.*)$`)
	reRet    = regexp.MustCompile(`^(\[|_\d+)<--(_\d+) :\s*(.*)$`)
)

type arrow struct{ From, To, Label string }

// readSequence parses a PlantUML sequence diagram; returns call arrows (application names) and problems.
func readSequence(d string) (arrows []arrow, problems []string, gap string) {
	alias := map[string]string{}
	declared := map[string]int{}
	depth := map[string]int{}
	used := map[string]bool{}
	var blocks []string
	inBody := false
	inBox := false
	for n, raw := range strings.Split(d, "\n") {
		line := strings.TrimSpace(raw)
		switch {
		case line == "" || strings.HasPrefix(line, "'") || line == "@startuml" || line == "@enduml" || strings.HasPrefix(line, "skinparam") || strings.HasPrefix(line, "title "):
		case strings.HasPrefix(line, "== "):
			inBody = true
		case !inBody && reHead.MatchString(line):
			m := reHead.FindStringSubmatch(line)
			alias[m[3]] = m[2]
			declared[m[3]]++
		case strings.HasPrefix(line, "box "):
			inBox = true
		case line == "end box":
			inBox = false
		case inBox && strings.HasPrefix(line, "participant "):
			used[strings.TrimPrefix(line, "participant ")] = true
		case reCall.MatchString(line):
			m := reCall.FindStringSubmatch(line)
			used[m[2]] = true
			from := "["
			if m[1] != "[" {
				used[m[1]] = true
				from = m[1]
				if depth[m[1]] <= 0 {
					problems = append(problems, fmt.Sprintf("line %d: %s sends call %q while it is not active", n+1, m[1], m[3]))
				}
			}
			arrows = append(arrows, arrow{from, m[2], m[3]})
		case reAction.MatchString(line):
			m := reAction.FindStringSubmatch(line)
			used[m[1]] = true
		case reRet.MatchString(line):
			m := reRet.FindStringSubmatch(line)
			used[m[2]] = true
		case strings.HasPrefix(line, "activate "):
			a := strings.TrimPrefix(line, "activate ")
			used[a] = true
			depth[a]++
		case strings.HasPrefix(line, "deactivate "):
			a := strings.TrimPrefix(line, "deactivate ")
			depth[a]--
			if depth[a] < 0 {
				problems = append(problems, fmt.Sprintf("line %d: deactivate of inactive %s", n+1, a))
			}
		case strings.HasPrefix(line, "opt ") || line == "opt" || strings.HasPrefix(line, "loop ") || strings.HasPrefix(line, "group ") || strings.HasPrefix(line, "alt ") || line == "alt":
			blocks = append(blocks, strings.Fields(line)[0])
		case strings.HasPrefix(line, "else ") || line == "else":
			if len(blocks) == 0 || blocks[len(blocks)-1] != "alt" {
				problems = append(problems, fmt.Sprintf("line %d: else outside alt", n+1))
			}
		case line == "end":
			if len(blocks) == 0 {
				problems = append(problems, fmt.Sprintf("line %d: end without an open block", n+1))
			} else {
				blocks = blocks[:len(blocks)-1]
			}
		case strings.HasPrefix(line, "note "):
		default:
			return nil, nil, fmt.Sprintf("unreadable diagram line %d: %q", n+1, line)
		}
	}
	if len(blocks) > 0 {
		problems = append(problems, fmt.Sprintf("%d block(s) left open: %v", len(blocks), blocks))
	}
	for a, dd := range depth {
		if dd != 0 {
			problems = append(problems, fmt.Sprintf("participant %s ends with activation depth %d", a, dd))
		}
	}
	for a := range used {
		if declared[a] != 1 {
			problems = append(problems, fmt.Sprintf("participant %s is used but declared %d time(s)", a, declared[a]))
		}
	}
	for i := range arrows {
		if arrows[i].From != "[" {
			arrows[i].From = alias[arrows[i].From]
		}
		arrows[i].To = alias[arrows[i].To]
	}
	return arrows, problems, ""
}

// refWalkCalls: the reference call sequence.
func refWalkCalls(m *sysl.Module, start epRef, bb map[string]bool) []arrow {
	var out []arrow
	inProgress := map[string]int{}
	var walkStmts func(app string, ss []*sysl.Statement)
	var visit func(from string, t epRef)
	visit = func(from string, t epRef) {
		hidden := false
		for _, e := range m.Apps[t.App].Endpoints[t.Ep].GetAttrs()["patterns"].GetA().GetElt() {
			hidden = hidden || e.GetS() == "hidden"
		}
		if !hidden {
			out = append(out, arrow{from, t.App, t.Ep}) // the call to a hidden endpoint is not drawn; its body is still walked
		}
		key := t.App + " <- " + t.Ep
		if bb[key] || inProgress[key] > 0 {
			return
		}
		ep := m.Apps[t.App].Endpoints[t.Ep]
		inProgress[key]++
		walkStmts(t.App, ep.GetStmt())
		inProgress[key]--
	}
	walkStmts = func(app string, ss []*sysl.Statement) {
		for _, s := range ss {
			switch x := s.GetStmt().(type) {
			case *sysl.Statement_Call:
				visit(app, epRef{strings.Join(x.Call.GetTarget().GetPart(), " :: "), x.Call.GetEndpoint()})
			case *sysl.Statement_Cond:
				walkStmts(app, x.Cond.GetStmt())
			case *sysl.Statement_Loop:
				walkStmts(app, x.Loop.GetStmt())
			case *sysl.Statement_LoopN:
				walkStmts(app, x.LoopN.GetStmt())
			case *sysl.Statement_Foreach:
				walkStmts(app, x.Foreach.GetStmt())
			case *sysl.Statement_Group:
				walkStmts(app, x.Group.GetStmt())
			case *sysl.Statement_Alt:
				for _, c := range x.Alt.GetChoice() {
					walkStmts(app, c.GetStmt())
				}
			}
		}
	}
	visit("[", start)
	return out
}

// c13BudgetLabeler is the stock labeler plus a step budget: the largest diagram of these 3- and 4-endpoint
// models has a few hundred arrows, so a generation that labels 20000 calls is not going to terminate; the
// panic turns it into an ordinary violation (non-termination) instead of minutes of stack growth.
type c13BudgetLabeler struct {
	cmdutils.Labeler
	calls, budget int
}

const c13Runaway = "C13: call budget exhausted (runaway recursion)"

func (l *c13BudgetLabeler) LabelEndpoint(p *cmdutils.EndpointLabelerParam) string {
	if l.calls++; l.calls > l.budget {
		panic(c13Runaway)
	}
	return l.Labeler.LabelEndpoint(p)
}

func genSeq(m *sysl.Module, start string, bb map[string]*cmdutils.Upto, group string, more ...string) (out string, err error, crash string) {
	defer func() {
		if r := recover(); r != nil {
			crash = fmt.Sprint(r)
		}
	}()
	lg := logrus.New()
	lg.SetOutput(io.Discard)
	l := &c13BudgetLabeler{budget: 20000}
	p := &sequencediagram.SequenceDiagParam{Endpoints: append([]string{start}, more...), Blackboxes: bb, Group: group}
	if bb == nil && len(more) > 0 {
		p.Blackboxes = map[string]*cmdutils.Upto{} // the collection registers the other starts here
	}
	p.AppLabeler = l
	p.EndpointLabeler = l
	out, err = sequencediagram.GenerateSequenceDiag(m, p, lg)
	return
}

func (c13) Run(c core.Case) core.Outcome {
	var cs c13Case
	_ = json.Unmarshal(c.Data, &cs)
	var o core.Outcome
	o.Class = "ok"
	// "terminates": the models have at most 4 endpoints, so a visitor that is still recursing at a 64 MB
	// stack is not going to stop; the fatal stack overflow ends the worker and is reported as a crash
	// long before the default 1 GB limit (and the memory that goes with it) is reached.
	debug.SetMaxStack(64 << 20)
	n := len(cs.Dist)
	bodies := c13Bodies(cs.Dist, n == 4)
	// compile every (endpoint, body) once
	eps := make([][]*sysl.Endpoint, n)
	for i := 0; i < n; i++ {
		for _, b := range bodies {
			epDecl := c13EpName(i)
			if cs.Hidden == i+1 {
				epDecl += " [~hidden]"
			}
			e, err := c13ParseEndpoint(cs.Dist[i], epDecl, b)
			if err != nil {
				o.Gap = "body does not compile: " + err.Error()
				return o
			}
			eps[i] = append(eps[i], e)
		}
	}
	idx := make([]int, n)
	idx[0] = cs.Body0
	diagrams, nontriv := 0, 0
	var rec func(k int) bool
	check := func() bool {
		m := &sysl.Module{Apps: map[string]*sysl.Application{}}
		for i := 0; i < n; i++ {
			app := m.Apps[cs.Dist[i]]
			if app == nil {
				grp := "g1"
				if cs.Dist[i] == "B" {
					grp = "g2"
				}
				app = &sysl.Application{Name: &sysl.AppName{Part: []string{cs.Dist[i]}}, Endpoints: map[string]*sysl.Endpoint{},
					Attrs: map[string]*sysl.Attribute{"grp": {Attribute: &sysl.Attribute_S{S: grp}}}}
				m.Apps[cs.Dist[i]] = app
			}
			app.Endpoints[c13EpName(i)] = eps[i][idx[i]]
		}
		for s := 0; s < n; s++ {
			if cs.Hidden == s+1 {
				continue // a hidden start endpoint has no entry arrow: outside the reference walk
			}
			start := epRef{cs.Dist[s], c13EpName(s)}
			type opt struct {
				name  string
				bb    string
				group string
				multi int // 1 + index of a second start endpoint drawn in the same diagram (0 = none)
			}
			opts := []opt{{name: "plain"}, {name: "group", group: "grp"}}
			for i := 0; i < n; i++ {
				if i != s {
					opts = append(opts, opt{name: "bb", bb: cs.Dist[i] + " <- " + c13EpName(i)})
				}
			}
			if msum := idx[0] + idx[n-1]; msum%3 == 1 {
				// two start endpoints in one diagram (the second start is registered as "see below" for the first)
				for i := 0; i < n; i++ {
					if i != s && cs.Hidden != i+1 {
						opts = append(opts, opt{name: "multi", multi: i + 1})
					}
				}
			}
			for _, op := range opts {
				var bb map[string]*cmdutils.Upto
				bbset := map[string]bool{}
				if op.bb != "" {
					bb = map[string]*cmdutils.Upto{op.bb: {Comment: "blackbox", ValueType: cmdutils.BBCommandLine}}
					bbset[op.bb] = true
				}
				var more []string
				if op.multi > 0 {
					more = []string{cs.Dist[op.multi-1] + " <- " + c13EpName(op.multi-1)}
				}
				out, err, crash := genSeq(m, start.App+" <- "+start.Ep, bb, op.group, more...)
				diagrams++
				desc := func() string {
					var b strings.Builder
					for i := 0; i < n; i++ {
						fmt.Fprintf(&b, "%s <- %s: {%s} ", cs.Dist[i], c13EpName(i), strings.ReplaceAll(bodies[idx[i]], "\n", "; "))
					}
					return fmt.Sprintf("model %sstart %s <- %s option %s%s%s%v", b.String(), start.App, start.Ep, op.name, op.bb, op.group, more)
				}
				fail := func(sig, msg string) bool {
					o.Class = "violation"
					o.Violation = desc() + ": " + msg
					o.Sig = sig
					d, _ := json.Marshal(map[string]interface{}{"diagram": out, "bodies": idx})
					o.Detail = d
					return false
				}
				if crash == c13Runaway {
					return fail("non-termination", "generation labelled more than 20000 calls on a model whose call tree has at most a few hundred: runaway recursion")
				}
				if crash != "" {
					return fail("crash|"+core.MaskMsg(crash), "generation panicked: "+crash)
				}
				if err != nil {
					return fail("error", "generation failed on a model without dangling targets: "+err.Error())
				}
				arrows, problems, gap := readSequence(out)
				if gap != "" {
					o.Gap = desc() + ": " + gap
					return false
				}
				if len(problems) > 0 {
					kind := "wellformed"
					switch {
					case strings.Contains(problems[0], "while it is not active"):
						kind = "call-while-inactive"
					case strings.Contains(problems[0], "activation depth") || strings.Contains(problems[0], "deactivate of inactive"):
						kind = "activation-unbalanced"
					case strings.Contains(problems[0], "declared"):
						kind = "participant-declaration"
					case strings.Contains(problems[0], "block") || strings.Contains(problems[0], "end"):
						kind = "block-not-closed"
					}
					return fail(kind, strings.Join(problems, "; "))
				}
				want := refWalkCalls(m, start, bbset)
				if op.multi > 0 {
					// each start is its own section: the walk starts afresh
					want = append(want, refWalkCalls(m, epRef{cs.Dist[op.multi-1], c13EpName(op.multi - 1)}, bbset)...)
				}
				if fmt.Sprint(arrows) != fmt.Sprint(want) {
					kind := "arrows-differ"
					if len(arrows) < len(want) {
						kind = "arrows-missing"
					} else if len(arrows) > len(want) {
						kind = "arrows-extra"
					}
					return fail(kind, fmt.Sprintf("call arrows %v, reference walk %v", arrows, want))
				}
				if len(arrows) >= 2 {
					nontriv++
				}
			}
		}
		// several diagrams in one run: a project application with one sequence-diagram endpoint per start
		// (one of them with an endpoint-level blackbox); each diagram must be identical to the one generated
		// from a project that holds only that endpoint
		sum := 0
		for _, x := range idx {
			sum += x
		}
		if sum%3 == 0 {
			mkProj := func(only int) *sysl.Module {
				pm := &sysl.Module{Apps: map[string]*sysl.Application{}}
				for k, v := range m.Apps {
					pm.Apps[k] = v
				}
				proj := &sysl.Application{Name: &sysl.AppName{Part: []string{"Proj"}}, Endpoints: map[string]*sysl.Endpoint{}}
				for s := 0; s < n; s++ {
					if only >= 0 && only != s {
						continue
					}
					ep := &sysl.Endpoint{Name: fmt.Sprintf("d%d", s), Stmt: []*sysl.Statement{{Stmt: &sysl.Statement_Call{Call: &sysl.Call{
						Target: &sysl.AppName{Part: []string{cs.Dist[s]}}, Endpoint: c13EpName(s)}}}}}
					if s == 1 {
						bbTarget := cs.Dist[0] + " <- " + c13EpName(0)
						ep.Attrs = map[string]*sysl.Attribute{"blackboxes": {Attribute: &sysl.Attribute_A{A: &sysl.Attribute_Array{Elt: []*sysl.Attribute{
							{Attribute: &sysl.Attribute_A{A: &sysl.Attribute_Array{Elt: []*sysl.Attribute{{Attribute: &sysl.Attribute_S{S: bbTarget}}, {Attribute: &sysl.Attribute_S{S: "note"}}}}}}}}}}}
					}
					proj.Endpoints[ep.Name] = ep
				}
				pm.Apps["Proj"] = proj
				return pm
			}
			run := func(pm *sysl.Module) (res map[string]string, crash string) {
				defer func() {
					if r := recover(); r != nil {
						crash = fmt.Sprint(r)
					}
				}()
				lg := logrus.New()
				lg.SetOutput(io.Discard)
				res, err := sequencediagram.DoConstructSequenceDiagrams(&cmdutils.CmdContextParamSeqgen{AppsFlag: []string{"Proj"}, Output: "%(epname)", EndpointFormat: "%(epname)", AppFormat: "%(appname)"}, pm, lg)
				if err != nil {
					crash = "error: " + err.Error()
				}
				return res, crash
			}
			all, crash := run(mkProj(-1))
			describe := func() string {
				var b strings.Builder
				for i := 0; i < n; i++ {
					fmt.Fprintf(&b, "%s <- %s: {%s} ", cs.Dist[i], c13EpName(i), strings.ReplaceAll(bodies[idx[i]], "\n", "; "))
				}
				return "model " + b.String()
			}
			if crash != "" {
				o.Class, o.Sig = "violation", "multi|"+core.MaskMsg(crash)
				o.Violation = describe() + "project with one diagram endpoint per start (d1 with a blackbox on the first endpoint): " + crash
				return false
			}
			for s := 0; s < n; s++ {
				one, crash := run(mkProj(s))
				diagrams += 2
				name := fmt.Sprintf("d%d", s)
				if crash != "" || one[name] != all[name] {
					o.Class, o.Sig = "violation", "multi-differs"
					o.Violation = fmt.Sprintf("%sproject with one diagram endpoint per start (d1 with a blackbox on %s <- %s): diagram %s differs from the diagram of a project holding only that endpoint: %s %s", describe(), cs.Dist[0], c13EpName(0), name, firstDiff(one[name], all[name]), crash)
					return false
				}
			}
		}
		return true
	}
	rec = func(k int) bool {
		if k == n {
			return check()
		}
		for b := range bodies {
			idx[k] = b
			if !rec(k + 1) {
				return false
			}
		}
		return true
	}
	rec(1)
	o.Traces = diagrams
	o.Extra = map[string]int{"diagrams": diagrams, "diagrams_with_2+_arrows": nontriv}
	if nontriv > 0 {
		o.NonTrivial = fmt.Sprintf("%v/%d/h%d", cs.Dist, cs.Body0, cs.Hidden)
	}
	return o
}
