package props

// C01 — compilation is total. Bounded-exhaustive input enumeration against the real
// parse.Parser: S1 odd-mode construct product, S2 single-edit neighbourhoods of seeds,
// S3 import closures, S4 all short byte strings. Oracle: (model,nil) or (nil,err),
// no panic on any goroutine, no process exit, termination.

import (
	"encoding/json"
	"fmt"
	"io"
	"os"
	"path/filepath"
	"runtime/debug"
	"sort"
	"strings"
	"time"

	"github.com/sirupsen/logrus"
	"github.com/spf13/afero"

	"github.com/anz-bank/sysl/pkg/parse"
	"github.com/anz-bank/sysl/pkg/sysl"
	"verif/engine/core"
	"verif/engine/gen"
)

type c01 struct{}

func init() { core.Register(c01{}) }

func (c01) ID() string    { return "C01" }
func (c01) Level() string { return "exploration" }
func (c01) Rule() string {
	return "complete enumeration of four input spaces: S1 odd-mode construct product (every type expression/name/statement/attribute form in every position), S2 every single token-, line- and truncation-edit of 18 seeds (thorough: pairs of line edits on the smallest seeds), S3 each seed as root/imported/mutually-importing file, S4 all byte strings up to the length bound over 24 lexically significant bytes. Non-trivial = the input passed the ANTLR stage and reached the unguarded tree walk (a model was returned, or the run crashed); distinct by input text"
}
func (c01) Assumptions() []string {
	return []string{
		"inputs outside the four enumerated spaces are not covered (long files, bytes outside the alphabets)",
		"a compile is given 60 s before it is declared non-terminating (normal cost 5-10 ms)",
		"foreign-format imports (yaml/json/proto/pb) are covered by C06/C11, not here",
	}
}
func (c01) CaseTimeout() time.Duration { return 60 * time.Second }

type filesCase struct {
	Root  string            `json:"root"`
	Files map[string]string `json:"files"`
}

const c01Alphabet = "Aa1%\"':.,~@#|!<>-/()[]{} \t\n"

func (c01) Bounds(tier string) map[string]interface{} {
	n := 3
	if tier == "thorough" {
		n = 4
	}
	return map[string]interface{}{"S4_max_len": n, "S4_alphabet": c01Alphabet, "S2_seeds": len(gen.Seeds), "S2_tokens": len(gen.EditTokens)}
}

func (c01) Cases(tier string, emit func(string, interface{})) {
	full := tier == "thorough"
	one := func(kind, s string) { emit(kind, filesCase{Root: "t.sysl", Files: map[string]string{"t.sysl": s}}) }
	s1 := gen.OddSpecs(full)
	for _, s := range s1 {
		one("S1", s)
	}
	toks := gen.EditTokens
	if !full {
		toks = []string{":", "<:", "<-", ".", "?", "(", "[", "~", "@", "|", "!type", "%", "5..", "x", "\n", "    "}
	}
	for _, seed := range gen.Seeds {
		for _, s := range gen.EditNeighbourhood(seed, toks) {
			one("S2", s)
		}
	}
	if full {
		// pairs of line-level edits on the smallest seeds
		for _, seed := range gen.Seeds {
			if strings.Count(seed, "\n") > 6 {
				continue
			}
			for _, s := range gen.EditNeighbourhood(seed, nil) {
				if len(s) < len(seed)-12 { // skip deep truncations, they were covered
					continue
				}
				for _, s2 := range gen.EditNeighbourhood(s, nil) {
					one("S2x2", s2)
				}
			}
		}
	}
	// S3: import closures
	s3 := append([]string{}, gen.Seeds...)
	if full {
		s3 = append(s3, s1...)
	} else {
		for i, s := range s1 {
			if strings.Contains(s, "%") || strings.Contains(s, "9999") || i < 40 {
				s3 = append(s3, s)
			}
		}
	}
	for i, s := range s3 {
		body := stripImports(s)
		emit("S3", filesCase{Root: "r.sysl", Files: map[string]string{"r.sysl": "import x\nR:\n    ...\n", "x.sysl": body}})
		if !full && i >= len(gen.Seeds) {
			continue
		}
		emit("S3", filesCase{Root: "r.sysl", Files: map[string]string{"r.sysl": "import x\n" + body, "x.sysl": "import r\n" + body}})
		emit("S3", filesCase{Root: "r.sysl", Files: map[string]string{"r.sysl": "import x\nimport y\nA:\n    Ep:\n        ...\n", "x.sysl": "import y\n" + body, "y.sysl": "import x\n" + body}})
	}
	// S3c: one file imported twice under every pair of import forms (plain, two different aliases, a
	// namespaced alias, a mode tag), as a leaf, with an import of its own, and reached through a sibling
	forms := []string{"import x", "import x as A", "import x as B", "import x as Ns :: A", "import x.sysl", "import ./x", "import x ~sysl"}
	xbody := "X:\n    Ep:\n        ...\n"
	for _, f1 := range forms {
		for _, f2 := range forms {
			emit("S3c", filesCase{Root: "r.sysl", Files: map[string]string{"r.sysl": f1 + "\n" + f2 + "\nR:\n    ...\n", "x.sysl": xbody}})
			emit("S3c", filesCase{Root: "r.sysl", Files: map[string]string{"r.sysl": f1 + "\n" + f2 + "\nimport z\nR:\n    ...\n", "x.sysl": "import d\n" + xbody, "d.sysl": "import e\nD:\n    ...\n", "e.sysl": "E:\n    ...\n", "z.sysl": "import e\nZ:\n    ...\n"}})
			emit("S3c", filesCase{Root: "r.sysl", Files: map[string]string{"r.sysl": f1 + "\nimport y\nR:\n    ...\n", "y.sysl": f2 + "\nimport d\nY:\n    ...\n", "x.sysl": "import d\n" + xbody, "d.sysl": "D:\n    ...\n"}})
		}
	}
	// S3d: long import chains and wide two-level fans (a bound on concurrent retrievals must not turn depth or
	// width into a deadlock)
	for _, n := range []int{5, 9, 12, 17, 33} {
		files := map[string]string{}
		for i := 0; i < n; i++ {
			imp := ""
			if i+1 < n {
				imp = fmt.Sprintf("import c%d\n", i+1)
			}
			name := fmt.Sprintf("c%d.sysl", i)
			if i == 0 {
				name = "r.sysl"
			}
			files[name] = imp + fmt.Sprintf("C%d:\n    ...\n", i)
		}
		emit("S3d", filesCase{Root: "r.sysl", Files: files})
	}
	for _, w := range []int{7, 9, 17} {
		files := map[string]string{}
		root := ""
		for i := 0; i < w; i++ {
			root += fmt.Sprintf("import w%d\n", i)
			files[fmt.Sprintf("w%d.sysl", i)] = fmt.Sprintf("import l%d\nW%d:\n    ...\n", i, i)
			files[fmt.Sprintf("l%d.sysl", i)] = fmt.Sprintf("L%d:\n    ...\n", i)
		}
		files["r.sysl"] = root + "R:\n    ...\n"
		emit("S3d", filesCase{Root: "r.sysl", Files: files})
	}
	// CLI: one representative per construct family and per crash class seen in the library runs
	for _, s := range append(append([]string{}, gen.Seeds...), gen.CrashRepros...) {
		one("CLI", s)
		emit("CLI", filesCase{Root: "r.sysl", Files: map[string]string{"r.sysl": "import x\nR:\n    ...\n", "x.sysl": stripImports(s)}})
	}
	maxLen := 3
	if full {
		maxLen = 4
	}
	for n := 1; n <= maxLen; n++ {
		gen.ByteStrings(c01Alphabet, n, func(s string) { one("S4", s) })
	}
	for n := 1; n <= 2; n++ {
		gen.ByteStrings(c01Alphabet, n, func(s string) {
			emit("S4i", filesCase{Root: "r.sysl", Files: map[string]string{"r.sysl": "import x\nR:\n    ...\n", "x.sysl": s}})
		})
	}
}

func stripImports(s string) string {
	var b strings.Builder
	for _, l := range strings.SplitAfter(s, "\n") {
		if strings.HasPrefix(l, "import ") {
			continue
		}
		b.WriteString(l)
	}
	return b.String()
}

func (c01) InitWorker() {
	logrus.SetOutput(io.Discard)
	debug.SetMaxStack(256 << 20)
}

// compileFiles runs the real parser on an in-memory file set. A panic on the calling
// goroutine is caught and returned as crash text (panics on other goroutines and
// os.Exit kill the worker and are observed by the master).
func compileFiles(fc filesCase, settings parse.Settings) (m *sysl.Module, err error, crash string) {
	fs := afero.NewMemMapFs()
	names := make([]string, 0, len(fc.Files))
	for n := range fc.Files {
		names = append(names, n)
	}
	sort.Strings(names)
	for _, n := range names {
		_ = afero.WriteFile(fs, n, []byte(fc.Files[n]), 0o644)
	}
	defer func() {
		if r := recover(); r != nil {
			crash = fmt.Sprintf("panic: %v\n\n%s", r, debug.Stack())
		}
	}()
	p := parse.NewParser()
	p.Set(settings)
	m, err = p.ParseFromFs(fc.Root, fs)
	return
}

func errClass(err error) string {
	s := err.Error()
	switch {
	case strings.Contains(s, "has syntax errors"):
		return "error:syntax"
	case strings.Contains(s, "error reading"):
		return "error:import"
	}
	return "error:other"
}

// c01CLI: the same input through the built binary: exit 0 with output, or non-zero with a message, no crash text.
func c01CLI(fc filesCase) core.Outcome {
	var o core.Outcome
	dir, err := os.MkdirTemp("", "c01cli")
	if err != nil {
		o.Gap = err.Error()
		return o
	}
	defer os.RemoveAll(dir)
	for n, s := range fc.Files {
		_ = os.WriteFile(filepath.Join(dir, n), []byte(s), 0o644)
	}
	code, so, se := core.RunCLI(dir, 60*time.Second, "pb", "--mode", "textpb", "--root", ".", fc.Root)
	o.Class = fmt.Sprintf("cli:exit=%d", code)
	switch {
	case code == -1:
		o.Violation = fmt.Sprintf("sysl pb did not terminate within 60s on %q", fc.Files)
		o.Sig = "cli-timeout"
	case core.CrashText(se) || core.CrashText(so) || code > 2 || code < 0:
		msg, frame := core.CrashSig(se)
		o.Violation = fmt.Sprintf("sysl pb crashed (exit %d): %s at %s on %q", code, msg, frame, fc.Files)
		o.Sig = "cli-crash|" + frame + "|" + msg
	case code != 0 && strings.TrimSpace(se) == "":
		o.Violation = fmt.Sprintf("sysl pb exit %d without a message on %q", code, fc.Files)
		o.Sig = "cli-no-message"
	}
	o.NonTrivial = "cli|" + core.Hash(fmt.Sprint(fc.Files))
	return o
}

func (c01) Run(c core.Case) core.Outcome {
	var fc filesCase
	_ = json.Unmarshal(c.Data, &fc)
	if c.Kind == "CLI" {
		return c01CLI(fc)
	}
	m, err, crash := compileFiles(fc, parse.Settings{})
	var o core.Outcome
	key := func() string {
		var b strings.Builder
		for k, v := range fc.Files {
			b.WriteString(k + "\x00" + v + "\x00")
		}
		return core.Hash(b.String())
	}
	switch {
	case crash != "":
		msg, frame := core.CrashSig(crash)
		o.Class = "crash"
		o.NonTrivial = key()
		o.Violation = fmt.Sprintf("compile panicked: %s at %s; input %q", msg, frame, fc.Files)
		o.Sig = "crash|" + frame + "|" + msg
		d, _ := json.Marshal(map[string]string{"stack": crash})
		o.Detail = d
	case err != nil && m != nil:
		o.Class = "both"
		o.Violation = fmt.Sprintf("compile returned both a model and an error (%v); input %q", err, fc.Files)
		o.Sig = "model-and-error"
	case err == nil && m == nil:
		o.Class = "neither"
		o.Violation = fmt.Sprintf("compile returned neither a model nor an error; input %q", fc.Files)
		o.Sig = "no-model-no-error"
	case err != nil:
		o.Class = errClass(err)
	default:
		o.Class = "ok"
		o.NonTrivial = key()
	}
	return o
}
