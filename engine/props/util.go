package props

import (
	"fmt"
	"io"
	"os"
	"strings"

	"github.com/anz-bank/sysl/pkg/parse"
	"github.com/sirupsen/logrus"
	"verif/engine/core"

	"google.golang.org/protobuf/encoding/prototext"
	"google.golang.org/protobuf/proto"
)

// prototextString: deterministic multi-line text form (for diffs only).
func prototextString(m proto.Message) string {
	b, _ := prototext.MarshalOptions{Multiline: true, Indent: " "}.Marshal(m)
	return string(b)
}

func init() {
	core.Subcommands["dumpmod"] = func(args []string) {
		logrus.SetOutput(io.Discard)
		b, _ := os.ReadFile(args[0])
		m, err, crash := compileFiles(filesCase{Root: "t.sysl", Files: map[string]string{"t.sysl": string(b)}}, parse.Settings{})
		if err != nil || crash != "" {
			fmt.Println("ERR", err, crash)
			return
		}
		fmt.Println(prototextString(stripped(m)))
	}
}

var parseSettingsZero = parse.Settings{}

func firstDiff(a, b string) string {
	la, lb := strings.Split(a, "\n"), strings.Split(b, "\n")
	for i := 0; i < len(la) && i < len(lb); i++ {
		if la[i] != lb[i] {
			return fmt.Sprintf("line %d: %q vs %q", i+1, la[i], lb[i])
		}
	}
	return fmt.Sprintf("length %d vs %d lines", len(la), len(lb))
}
