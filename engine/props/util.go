package props

import (
	"google.golang.org/protobuf/encoding/prototext"
	"google.golang.org/protobuf/proto"
)

// prototextString: deterministic multi-line text form (for diffs only).
func prototextString(m proto.Message) string {
	b, _ := prototext.MarshalOptions{Multiline: true, Indent: " "}.Marshal(m)
	return string(b)
}
