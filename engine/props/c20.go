package props

// C20 — every command ends with output or an error on every valid model.
// Untidy-but-valid models (dangling call targets, dangling / cyclic type references, foreign keys
// to missing tables or fields, empty applications, recursive types, call and pass-through cycles,
// projects listing missing applications, every return payload form) x the CLI commands, run
// through the sysl binary built from the working tree. Oracle: terminates; exit 0, or non-zero
// with a message; never a Go crash dump.

import (
	"encoding/json"
	"fmt"
	"os"
	"path/filepath"
	"strings"
	"time"

	"github.com/anz-bank/sysl/pkg/parse"
	"verif/engine/core"
)

type c20 struct{}

func init() { core.Register(c20{}) }

func (c20) ID() string    { return "C20" }
func (c20) Level() string { return "exploration" }
func (c20) Rule() string {
	return "a base model (REST and simple endpoints, tuples, tables with keys and foreign keys, enum, project application) with exactly one oddity from an alphabet of ~45 (each compiles: checked first) x every command line of the matrix (pb in 3 modes, validate, sd per endpoint and per application with blackbox/groupby, ints plain/clustered/epa with exclude, datamodel direct/project, export swagger/openapi3 in yaml/json, generate-db-scripts, generate-db-scripts-delta against the base model and against itself, import of generated foreign documents; thorough adds spanner/proto export and pairs of oddities). Non-trivial = the model compiles and the command ran; distinct by (model, command line)"
}
func (c20) Assumptions() []string {
	return []string{
		"diagram commands write PlantUML text (-o x.puml), so no PlantUML server is needed; 'sysl diagram' (headless Chrome), lsp, repl, test-rig and codegen/template commands are not driven",
		"a crash is identified by exit status class, the masked panic message and the first stack frame inside github.com/anz-bank/sysl (function name)",
		"60 s per command before non-termination is declared (normal cost 0.1 s; arr.ai-backed commands 3-5 s)",
	}
}
func (c20) CaseTimeout() time.Duration { return 5 * time.Minute }

const c20Base = `Shop [version="1.0", grp="g1"]:
    !type Item:
        id <: int
        name <: string?
        owner <: Owner
        parts <: sequence of Part?
    !type Owner:
        oid <: int
    !type Part:
        p <: string
    !enum Kind:
        A: 1
        B: 2
    !table Stock:
        id <: int [~pk, ~autoinc]
        qty <: int
        depot <: Depot.id
    !table Depot:
        id <: int [~pk]
        city <: string(20)
    /items/{id <: int}:
        GET ?limit=int?:
            Store <- Load
            return ok <: Item
        POST (body <: Item [~body]):
            Store <- Save
            return 200 <: sequence of Item
    Refresh:
        Store <- Load
        . <- Helper
    Helper:
        Audit <- Log
%SHOP%
Store [~db, grp="g2"]:
    Load:
        Audit <- Log
        return ok <: string
    Save:
        Audit <- Log
%STORE%
Audit [grp="g1"]:
    Log:
        ...
Proj:
    view:
        Shop
        Store
%PROJ%
%TOP%
`

type c20Odd struct {
	Name  string
	Shop  string // members added to Shop (4-space indented)
	Store string
	Proj  string
	Top   string // top-level text
	Alt   string // a second version of the Shop members (the other side of a delta): ALT in command lines
}

var c20Odds = []c20Odd{
	{Name: "tidy"},
	{Name: "call-missing-app", Shop: "    Odd:\n        Missing <- Ep\n"},
	{Name: "call-missing-endpoint", Shop: "    Odd:\n        Store <- Nope\n"},
	{Name: "selfcall-missing-endpoint", Shop: "    Odd:\n        . <- Nope\n"},
	{Name: "call-missing-rest-endpoint", Shop: "    Odd:\n        Store <- GET /nope\n"},
	{Name: "rest-calls-missing-app", Shop: "    /odd:\n        GET:\n            Missing <- Ep\n            return ok <: Item\n"},
	{Name: "rest-calls-missing-endpoint", Shop: "    /odd:\n        GET:\n            Store <- Nope\n"},
	{Name: "call-in-nested-blocks-missing", Shop: "    Odd:\n        if a:\n            for each x:\n                one of:\n                    c1:\n                        Missing <- Ep\n"},
	{Name: "field-missing-type", Shop: "    !type Odd:\n        f <: Nope\n"},
	{Name: "field-missing-app-type", Shop: "    !type Odd:\n        f <: Missing.T\n"},
	{Name: "field-missing-type-in-sequence", Shop: "    !type Odd:\n        f <: sequence of Nope\n        g <: set of Missing.T\n"},
	{Name: "types-mutually-recursive", Shop: "    !type Odd:\n        f <: Odd2\n    !type Odd2:\n        g <: Odd\n"},
	{Name: "type-self-recursive", Shop: "    !type Odd:\n        f <: Odd\n        g <: sequence of Odd\n"},
	{Name: "cross-app-type-cycle", Shop: "    !type Odd:\n        f <: Store.Back\n", Store: "    !type Back:\n        g <: Shop.Odd\n"},
	{Name: "fk-missing-table", Shop: "    !table Odd:\n        id <: int [~pk]\n        r <: Nope.id\n"},
	{Name: "fk-missing-field", Shop: "    !table Odd:\n        id <: int [~pk]\n        r <: Depot.nope\n"},
	{Name: "fk-cycle", Shop: "    !table Odd:\n        id <: int [~pk]\n        r <: Odd2.id\n    !table Odd2:\n        id <: int [~pk]\n        r <: Odd.id\n"},
	{Name: "fk-self", Shop: "    !table Odd:\n        id <: int [~pk]\n        parent <: Odd.id\n"},
	{Name: "table-plain-type-ref", Shop: "    !table Odd:\n        id <: int [~pk]\n        r <: Item\n"},
	{Name: "table-collection-field", Shop: "    !table Odd:\n        id <: int [~pk]\n        r <: set of int\n        s <: sequence of Item\n"},
	{Name: "table-no-key", Shop: "    !table Odd:\n        v <: string\n"},
	{Name: "table-fk-to-tuple-field", Shop: "    !table Odd:\n        id <: int [~pk]\n        r <: Item.id\n"},
	{Name: "empty-app", Top: "Empty:\n    ...\n"},
	{Name: "empty-type", Shop: "    !type Odd:\n        ...\n"},
	{Name: "empty-table", Shop: "    !table Odd:\n        ...\n"},
	{Name: "call-cycle", Shop: "    Odd:\n        Store <- Back\n", Store: "    Back:\n        Shop <- Odd\n"},
	{Name: "self-call-cycle", Shop: "    Odd:\n        . <- Odd\n"},
	{Name: "proj-lists-missing-app", Proj: "    odd:\n        Missing\n        Shop\n"},
	{Name: "proj-passthrough-cycle", Proj: "    odd [passthrough=[\"Store\", \"Audit\"]]:\n        Shop\n", Store: "    Back:\n        Audit <- Log2\n", Top: "Audit2:\n    ...\n"},
	{Name: "iso-annotations-of-unusual-kinds", Shop: "    !type Secret [iso_conf=\"\", iso_integ=[\"red\", \"amber\"]]:\n        s <: string\n    !type Secret2 [iso_conf=[\"red\"], iso_integ=\"\"]:\n        s <: string\n    Odd:\n        . <- OddCallee\n        return ok <: Shop.Secret\n    OddCallee (p <: Shop.Secret, q <: Shop.Secret2):\n        return ok <: Shop.Secret2\n"},
	{Name: "proj-passthrough-dangling", Proj: "    odd [passthrough=[\"Store\", \"Missing\"]]:\n        Shop\n", Shop: "    Odd:\n        Store <- Nope\n        Missing <- Ep\n"},
	{Name: "proj-exclude-missing", Proj: "    odd [exclude=[\"Missing\"], passthrough=[\"Nope\"]]:\n        Shop\n"},
	{Name: "proj-empty-endpoint", Proj: "    odd:\n        ...\n"},
	{Name: "return-bare", Shop: "    Odd:\n        return\n"},
	{Name: "return-status-only", Shop: "    /odd:\n        GET:\n            return 204\n        DELETE:\n            return ok\n"},
	{Name: "return-missing-type", Shop: "    /odd:\n        GET:\n            return ok <: Nope\n        POST:\n            return 200 <: sequence of Missing.T\n"},
	{Name: "return-with-attrs", Shop: "    /odd:\n        GET:\n            return ok <: Item [mediatype=\"application/json\", ~x]\n            return error <: string [k=[\"a\", [\"b\"]]]\n"},
	{Name: "return-odd-text", Shop: "    Odd:\n        return some free text here\n        return 999 <: set of Item?\n"},
	{Name: "param-missing-type", Shop: "    Odd (p <: Nope, q <: Missing.T):\n        ...\n    /odd:\n        POST (body <: Nope [~body]):\n            return ok <: Nope\n"},
	{Name: "pathvar-ref-type", Shop: "    /odd/{key <: Item}:\n        GET:\n            return ok <: Item\n"},
	{Name: "query-ref-type", Shop: "    /odd:\n        GET ?q=Nope&r={Missing}:\n            return ok <: Item\n"},
	{Name: "subscriber-missing-publisher", Shop: "    Missing -> Event:\n        Store <- Load\n"},
	{Name: "event-and-subscriber", Shop: "    <-> Ev:\n        Store <- Load\n", Store: "    Shop -> Ev:\n        Audit <- Log\n"},
	{Name: "mixin-missing", Shop: "    -|> Missing\n"},
	{Name: "mixin-self", Shop: "    -|> Shop\n"},
	{Name: "union-missing-member", Shop: "    !union Odd:\n        Nope\n        Item\n        Missing.T\n"},
	{Name: "alias-missing", Shop: "    !alias Odd:\n        Nope\n    !alias Odd2:\n        sequence of Missing.T\n"},
	{Name: "alias-chain-cycle", Shop: "    !alias Odd:\n        Odd2\n    !alias Odd2:\n        Odd\n"},
	{Name: "view-missing-refs", Shop: "    !view odd(p <: Nope) -> Missing.T:\n        p -> (:\n            x = p.nothing\n        )\n"},
	{Name: "collector-missing", Shop: "    .. * <- *:\n        Nope [~x]\n        Missing <- Ep [~y]\n"},
	{Name: "hidden-and-human", Shop: "    Odd [~hidden]:\n        Human <- Act\n", Top: "Human [~human]:\n    Act:\n        Shop <- Odd\n"},
	{Name: "app-name-with-escapes", Top: "Odd%20App :: Sub:\n    Ep%20One:\n        Shop <- Refresh\n    !type T%2EU:\n        f <: int\n"},
	{Name: "endpoint-name-spaces", Shop: "    Odd thing with spaces:\n        Store <- Load\n"},
	{Name: "kind-type-vs-table", Shop: "    !table Swap:\n        id <: int [~pk]\n        v <: string\n", Alt: "    !type Swap:\n        id <: int\n        v <: string\n"},
	{Name: "kind-enum-vs-table", Shop: "    !table Swap:\n        id <: int [~pk]\n", Alt: "    !enum Swap:\n        A: 1\n        B: 2\n"},
	{Name: "kind-alias-vs-table", Shop: "    !table Swap:\n        id <: int [~pk]\n", Alt: "    !alias Swap:\n        string\n"},
	{Name: "kind-union-vs-table", Shop: "    !table Swap:\n        id <: int [~pk]\n", Alt: "    !union Swap:\n        int\n        string\n"},
	{Name: "kind-table-referenced-vs-type", Shop: "    !table Swap:\n        id <: int [~pk]\n    !table User:\n        uid <: int [~pk]\n        s <: Swap.id\n", Alt: "    !type Swap:\n        id <: int\n    !table User:\n        uid <: int [~pk]\n"},
	{Name: "blackbox-entry-without-comment", Proj: "    odd [blackboxes=[[\"Store <- Load\"]]]:\n        Shop <- Refresh\n", Shop: "    Odd [blackboxes=[[\"Store <- Load\"]]]:\n        Store <- Load\n"},
	{Name: "return-without-spaces", Shop: "    /odd:\n        GET:\n            return ok<:Item\n        POST:\n            return 200<:sequence of Item\n    Odd:\n        return ok<:string\n"},
	{Name: "table-inplace-tuple", Shop: "    !table Odd:\n        id <: int [~pk]\n        inner <:\n            g <: int\n            h <: string\n"},
	{Name: "type-inplace-tuple-nested", Shop: "    !type Odd:\n        f <:\n            g <: int\n            h <:\n                i <: Item\n"},
	{Name: "dotted-type-names", Shop: "    !type Outer%2EInner:\n        f <: int\n    !type Outer:\n        g <: Outer%2EInner\n    !type Ref:\n        h <: Outer.Inner\n"},
}

func c20Model(odds ...c20Odd) string {
	var shop, store, proj, top string
	for _, o := range odds {
		shop += o.Shop
		store += o.Store
		proj += o.Proj
		top += o.Top
	}
	s := c20Base
	s = strings.Replace(s, "%SHOP%\n", shop, 1)
	s = strings.Replace(s, "%STORE%\n", store, 1)
	s = strings.Replace(s, "%PROJ%\n", proj, 1)
	s = strings.Replace(s, "%TOP%\n", top, 1)
	return s
}

// command lines; MODEL is replaced by m.sysl, BASE by base.sysl
var c20Cmds = [][]string{
	{"pb", "--mode", "textpb", "-o", "o.textpb", "MODEL"},
	{"pb", "--mode", "json", "-o", "o.json", "MODEL"},
	{"pb", "--mode", "pb", "-o", "o.pb", "MODEL"},
	{"pb", "--mode", "json", "--compact", "MODEL"},
	{"validate", "MODEL"},
	{"sd", "-s", "Shop <- Refresh", "-o", "sd1.puml", "MODEL"},
	{"sd", "-s", "Shop <- GET /items/{id}", "-o", "sd2.puml", "MODEL"},
	{"sd", "-s", "Shop <- Odd", "-o", "sd3.puml", "MODEL"},
	{"sd", "-s", "Shop <- GET /odd", "-o", "sd4.puml", "MODEL"},
	{"sd", "-s", "Shop <- Refresh", "-g", "grp", "-b", "Store <- Load=bb", "-o", "sd5.puml", "MODEL"},
	{"sd", "-s", "Shop <- Odd", "-s", "Store <- Back", "-o", "sd6.puml", "MODEL"},
	{"sd", "-s", "Shop <- Odd", "-s", "Shop <- Refresh", "-o", "sd7.puml", "MODEL"},
	{"sd", "-s", "Shop <- Refresh", "-s", "Store <- Load", "-s", "Shop <- Helper", "-o", "sd8.puml", "MODEL"},
	{"sd", "-a", "Shop", "-o", "sda-%(epname).puml", "MODEL"},
	{"diagram", "-s", "-a", "Shop", "-e", "Refresh", "-o", "m1.svg", "MODEL"},
	{"diagram", "-s", "-a", "Shop", "-e", "Odd", "-o", "m2.svg", "MODEL"},
	{"diagram", "-s", "-a", "Shop", "-e", "GET /odd", "-o", "m3.svg", "MODEL"},
	{"diagram", "-i", "-o", "m4.svg", "MODEL"},
	{"diagram", "-i", "-a", "Shop", "-o", "m5.svg", "MODEL"},
	{"diagram", "-d", "-o", "m6.svg", "MODEL"},
	{"sd", "-a", "Proj", "-o", "sdp-%(epname).puml", "MODEL"},
	{"ints", "-j", "Proj", "-o", "i-%(epname).puml", "MODEL"},
	{"ints", "-j", "Proj", "-c", "-o", "ic-%(epname).puml", "MODEL"},
	{"ints", "-j", "Proj", "--epa", "-o", "ie-%(epname).puml", "MODEL"},
	{"ints", "-j", "Proj", "-e", "Audit", "-o", "ix-%(epname).puml", "MODEL"},
	{"ints", "-j", "Shop", "-o", "is-%(epname).puml", "MODEL"},
	{"datamodel", "-d", "-o", "d-%(epname).puml", "MODEL"},
	{"datamodel", "-d", "-o", "dall.puml", "MODEL"},
	{"datamodel", "-j", "Proj", "-o", "dp-%(epname).puml", "MODEL"},
	{"export", "-f", "swagger", "-o", "sw-%(appname).yaml", "MODEL"},
	{"export", "-f", "swagger", "-o", "sw-%(appname).json", "MODEL"},
	{"export", "-f", "openapi3", "-o", "o3-%(appname).yaml", "MODEL"},
	{"export", "-f", "openapi3", "-o", "o3-%(appname).json", "MODEL"},
	{"generate-db-scripts", "-o", "db", "-a", "Shop", "-d", "postgres", "MODEL"},
	{"generate-db-scripts", "-o", "db2", "-a", "Shop,Store,Missing", "-d", "postgres", "MODEL"},
	{"generate-db-scripts-delta", "-o", "dd1", "-a", "Shop", "-d", "postgres", "BASE", "MODEL"},
	{"generate-db-scripts-delta", "-o", "dd2", "-a", "Shop", "-d", "postgres", "MODEL", "BASE"},
	{"generate-db-scripts-delta", "-o", "dd3", "-a", "Shop", "-d", "postgres", "MODEL", "MODEL"},
	{"generate-db-scripts-delta", "-o", "dd4", "-a", "Shop", "-d", "postgres", "ALT", "MODEL"},
	{"generate-db-scripts-delta", "-o", "dd5", "-a", "Shop", "-d", "postgres", "MODEL", "ALT"},
}

var c20SlowCmds = [][]string{
	{"export", "-f", "spanner", "-o", "sp.sql", "MODEL"},
	{"export", "-f", "proto", "-o", "pr.proto", "MODEL"},
}

type c20Case struct {
	Odds []int    `json:"odds"`
	Cmd  []string `json:"cmd"`
	Doc  string   `json:"doc,omitempty"` // import case: document text
	Name string   `json:"name,omitempty"`
	// Files: a multi-file model (root m.sysl) instead of the oddity model
	Files map[string]string `json:"files,omitempty"`
}

func (c20) Bounds(tier string) map[string]interface{} {
	return map[string]interface{}{"oddities": len(c20Odds), "commands": len(c20Cmds), "slow_commands_thorough": len(c20SlowCmds)}
}

func (c20) Cases(tier string, emit func(string, interface{})) {
	for i := range c20Odds {
		for _, cmd := range c20Cmds {
			if c20Odds[i].Alt == "" && (cmd[len(cmd)-1] == "ALT" || cmd[len(cmd)-2] == "ALT") {
				continue // no second version: the delta against BASE covers it
			}
			emit(cmd[0], c20Case{Odds: []int{i}, Cmd: cmd})
		}
		if tier == "thorough" {
			for _, cmd := range c20SlowCmds {
				emit(cmd[0], c20Case{Odds: []int{i}, Cmd: cmd})
			}
		}
	}
	if tier == "thorough" {
		for i := 1; i < len(c20Odds); i++ {
			for j := i + 1; j < len(c20Odds); j++ {
				if c20Odds[i].Shop != "" && c20Odds[j].Shop != "" && strings.Contains(c20Odds[i].Shop, " Odd") && strings.Contains(c20Odds[j].Shop, " Odd") {
					continue // both define the same member names
				}
				for _, cmd := range c20Cmds {
					if cmd[0] == "pb" || cmd[len(cmd)-1] == "ALT" || cmd[len(cmd)-2] == "ALT" {
						continue
					}
					emit("pair:"+cmd[0], c20Case{Odds: []int{i, j}, Cmd: cmd})
				}
			}
		}
	} else {
		emit("export", c20Case{Odds: []int{0}, Cmd: c20SlowCmds[0]})
		emit("export", c20Case{Odds: []int{0}, Cmd: c20SlowCmds[1]})
	}
	// multi-file models (duplicate imports, diamonds, a file imported again before further files are claimed)
	// with and without --no-different-version-check
	closures := map[string]map[string]string{
		"diamond":       {"m.sysl": "import b\nimport c\nA:\n    ...\n", "b.sysl": "import d\nB:\n    ...\n", "c.sysl": "import d\nC:\n    ...\n", "d.sysl": "D:\n    ...\n"},
		"dup-then-more": {"m.sysl": "import b\nimport c\nA:\n    ...\n", "b.sysl": "B:\n    ...\n", "c.sysl": "import b\nimport d\nC:\n    ...\n", "d.sysl": "import e\nD:\n    ...\n", "e.sysl": "E:\n    ...\n"},
		"twice":         {"m.sysl": "import b\nimport b\nimport c\nA:\n    ...\n", "b.sysl": "import c\nB:\n    ...\n", "c.sysl": "import d\nC:\n    ...\n", "d.sysl": "D:\n    ...\n"},
	}
	for _, name := range []string{"diamond", "dup-then-more", "twice"} {
		for _, flag := range []string{"", "--no-different-version-check"} {
			for _, cmd := range [][]string{{"pb", "--mode", "textpb", "-o", "o.textpb"}, {"validate"}} {
				full := append([]string{}, cmd...)
				if flag != "" {
					full = append(full, flag)
				}
				full = append(full, "MODEL")
				emit("closure", c20Case{Cmd: full, Files: closures[name], Name: name})
			}
		}
	}
	// import of generated foreign documents through the CLI
	docs := oaDocs("quick")
	for _, i := range []int{0, 5, len(docs)/2 - 3, len(docs)/2 - 1} {
		emit("import", c20Case{Cmd: []string{"import", "--input", "doc.yaml", "--app-name", "Imp", "--output", "imp.sysl"}, Doc: docs[i].render(), Name: "doc.yaml"})
	}
	x := xsdDocs("quick")
	emit("import", c20Case{Cmd: []string{"import", "--input", "doc.xsd", "--app-name", "Imp", "--output", "imp.sysl"}, Doc: x[len(x)-1].render(), Name: "doc.xsd"})
	emit("import", c20Case{Cmd: []string{"import", "--input", "doc.yaml", "--app-name", "Imp", "--output", "imp.sysl"}, Doc: "swagger: \"2.0\"\ninfo: {title: T, version: \"1\"}\npaths: {}\n", Name: "doc.yaml"})
	emit("import", c20Case{Cmd: []string{"import", "--input", "doc.yaml", "--app-name", "Imp", "--output", "imp.sysl"}, Doc: "swagger: \"2.0\"\npaths:\n  /a:\n    get:\n      responses:\n        200:\n          schema:\n            $ref: '#/definitions/Missing'\n", Name: "doc.yaml"})
}

var c20CompileCache = map[string]bool{}

func (c20) Run(c core.Case) core.Outcome {
	var cs c20Case
	_ = json.Unmarshal(c.Data, &cs)
	var o core.Outcome
	dir, err := os.MkdirTemp("", "c20")
	if err != nil {
		o.Gap = err.Error()
		return o
	}
	defer os.RemoveAll(dir)
	label := cs.Name
	if cs.Files != nil {
		for n, t := range cs.Files {
			_ = os.WriteFile(filepath.Join(dir, n), []byte(t), 0o644)
		}
	} else if cs.Doc != "" {
		_ = os.WriteFile(filepath.Join(dir, cs.Name), []byte(cs.Doc), 0o644)
	} else {
		var odds []c20Odd
		var names []string
		for _, i := range cs.Odds {
			odds = append(odds, c20Odds[i])
			names = append(names, c20Odds[i].Name)
		}
		label = strings.Join(names, "+")
		model := c20Model(odds...)
		ok, seen := c20CompileCache[model]
		if !seen {
			_, perr := parse.NewParser().ParseString(model)
			ok = perr == nil
			c20CompileCache[model] = ok
		}
		if !ok {
			o.Class = "model-does-not-compile"
			return o
		}
		_ = os.WriteFile(filepath.Join(dir, "m.sysl"), []byte(model), 0o644)
		_ = os.WriteFile(filepath.Join(dir, "base.sysl"), []byte(c20Model(c20Odds[0])), 0o644)
		var alts []c20Odd
		for _, od := range odds {
			if od.Alt != "" {
				od.Shop = od.Alt
			}
			alts = append(alts, od)
		}
		_ = os.WriteFile(filepath.Join(dir, "alt.sysl"), []byte(c20Model(alts...)), 0o644)
	}
	args := []string{"--root", "."}
	for _, a := range cs.Cmd {
		switch a {
		case "MODEL":
			a = "m.sysl"
		case "BASE":
			a = "base.sysl"
		case "ALT":
			a = "alt.sysl"
		}
		args = append(args, a)
	}
	// global flags go after the command name for kingpin: put the command first
	args = append([]string{cs.Cmd[0], "--root", "."}, args[3:]...)
	code, so, se := core.RunCLI(dir, 60*time.Second, args...)
	cmdline := "sysl " + strings.Join(args, " ")
	o.Class = fmt.Sprintf("exit=%d", code)
	o.NonTrivial = core.Hash(label + cmdline)
	d, _ := json.Marshal(map[string]string{"cmd": cmdline, "stderr": tail(se, 3000), "stdout": tail(so, 500)})
	switch {
	case code == -1:
		o.Class = "timeout"
		o.Violation = fmt.Sprintf("model %s: '%s' did not terminate within 60 s", label, cmdline)
		o.Sig = "timeout|" + cs.Cmd[0]
		o.Detail = d
	case strings.Contains(se+so, "\"google-chrome\": executable file not found"):
		// 'sysl diagram' renders through headless Chrome, which this sandbox does not have: the sysl side of
		// the command (the Mermaid text generator) ran to completion; the rendering step is outside the check
		o.Class = "needs-chrome"
	case core.CrashText(se) || core.CrashText(so) || code < 0 || code > 2:
		msg, frame := core.CrashSig(se + so)
		o.Class = "crash"
		o.Violation = fmt.Sprintf("model %s: '%s' died with a Go crash (exit %d): %s at %s", label, cmdline, code, msg, frame)
		o.Sig = "crash|" + frame + "|" + msg
		o.Detail = d
	case code != 0 && strings.TrimSpace(se) == "" && strings.TrimSpace(so) == "":
		o.Class = "silent-failure"
		o.Violation = fmt.Sprintf("model %s: '%s' exits %d without any message", label, cmdline, code)
		o.Sig = "silent-failure|" + cs.Cmd[0]
		o.Detail = d
	}
	return o
}

func tail(s string, n int) string {
	if len(s) > n {
		return s[:n/2] + "\n...\n" + s[len(s)-n/2:]
	}
	return s
}
