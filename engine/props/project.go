package props

// Projection of a compiled *sysl.Module onto the summary shape of gen.Intended: a sorted list of
// lines that contain only what property C02 names. Written against the protobuf schema, with no
// knowledge of how the listener builds the model.

import (
	"fmt"
	"sort"
	"strings"

	"github.com/anz-bank/sysl/pkg/sysl"
	"verif/engine/gen"
)

func attrCanon(a *sysl.Attribute) string {
	switch x := a.GetAttribute().(type) {
	case *sysl.Attribute_S:
		return fmt.Sprintf("s:%q", x.S)
	case *sysl.Attribute_I:
		return fmt.Sprintf("i:%d", x.I)
	case *sysl.Attribute_N:
		return fmt.Sprintf("n:%v", x.N)
	case *sysl.Attribute_A:
		var p []string
		for _, e := range x.A.GetElt() {
			p = append(p, attrCanon(e))
		}
		return "a:[" + strings.Join(p, ",") + "]"
	}
	return "none"
}

func projAttrs(prefix string, attrs map[string]*sysl.Attribute) []string {
	var out []string
	for k, v := range attrs {
		if k == "patterns" {
			if arr := v.GetA(); arr != nil {
				for _, e := range arr.GetElt() {
					if _, ok := e.GetAttribute().(*sysl.Attribute_S); ok {
						out = append(out, prefix+" tag "+e.GetS())
					} else {
						out = append(out, prefix+" tag?"+attrCanon(e))
					}
				}
				continue
			}
		}
		out = append(out, prefix+" attr "+k+"="+attrCanon(v))
	}
	return out
}

func appNameKey(n *sysl.AppName) string { return strings.Join(n.GetPart(), " :: ") }

func valueCanon(v *sysl.Value) string {
	if v == nil {
		return ""
	}
	switch x := v.GetValue().(type) {
	case *sysl.Value_I:
		return fmt.Sprint(x.I)
	case *sysl.Value_S:
		return x.S
	}
	return fmt.Sprint(v)
}

// typeCanon mirrors gen.TypeExpr.Canon for a model type. extra collects anomalies (attributes
// or optionality on the element of a collection) so that they cannot go unnoticed.
func typeCanon(t *sysl.Type) string {
	if t == nil {
		return "nil"
	}
	var s string
	inner := func(e *sysl.Type) string {
		c := typeCanonNoOpt(e)
		if e.GetOpt() {
			c += " opt!inner"
		}
		if len(e.GetAttrs()) > 0 {
			c += " attrs!inner"
		}
		return c
	}
	switch x := t.GetType().(type) {
	case *sysl.Type_Set:
		s = "set of " + inner(x.Set)
	case *sysl.Type_Sequence:
		s = "sequence of " + inner(x.Sequence)
	case *sysl.Type_List_:
		s = "list of " + inner(x.List.GetType())
	default:
		s = typeCanonNoOpt(t)
	}
	if t.GetOpt() {
		s += " opt"
	}
	return s
}

func typeCanonNoOpt(t *sysl.Type) string {
	var s string
	switch x := t.GetType().(type) {
	case *sysl.Type_Primitive_:
		s = x.Primitive.String()
	case *sysl.Type_TypeRef:
		r := x.TypeRef.GetRef()
		s = "ref(" + appNameKey(r.GetAppname()) + ";" + strings.Join(r.GetPath(), ".") + ")"
	case *sysl.Type_NoType_:
		s = "notype"
	case *sysl.Type_Tuple_:
		s = "tuple"
	case *sysl.Type_Relation_:
		s = "relation"
	case *sysl.Type_Enum_:
		s = "enum"
	case *sysl.Type_OneOf_:
		s = "oneof"
	case *sysl.Type_Set:
		s = "set of " + typeCanon(x.Set)
	case *sysl.Type_Sequence:
		s = "sequence of " + typeCanon(x.Sequence)
	case nil:
		s = "untyped"
	default:
		s = fmt.Sprintf("%T", x)
	}
	for i, c := range t.GetConstraint() {
		if i > 0 {
			s += " |"
		}
		if c.GetBitWidth() != 0 {
			s += fmt.Sprintf(" bits=%d", c.GetBitWidth())
		}
		if c.GetRange() != nil {
			s += " range=" + valueCanon(c.GetRange().GetMin()) + ".." + valueCanon(c.GetRange().GetMax())
		}
		if c.GetLength() != nil {
			s += fmt.Sprintf(" len=%d..%d", c.GetLength().GetMin(), c.GetLength().GetMax())
		}
		if c.GetPrecision() != 0 || c.GetScale() != 0 {
			s += fmt.Sprintf(" precision=%d scale=%d", c.GetPrecision(), c.GetScale())
		}
		if c.GetResolution() != nil {
			s += fmt.Sprintf(" resolution=%v", c.GetResolution())
		}
	}
	return s
}

// Project computes the summary of a compiled module.
func Project(m *sysl.Module) gen.Summary {
	var out []string
	add := func(f string, a ...interface{}) { out = append(out, fmt.Sprintf(f, a...)) }
	for key, app := range m.GetApps() {
		an := appNameKey(app.GetName())
		if an != key {
			add("app-key-mismatch %q vs name %q", key, an)
		}
		add("app %s", an)
		if app.GetLongName() != "" {
			add("app %s long=%q", an, app.GetLongName())
		}
		if app.GetDocstring() != "" {
			add("app %s doc=%q", an, app.GetDocstring())
		}
		out = append(out, projAttrs("app "+an, app.GetAttrs())...)
		for _, mx := range app.GetMixin2() {
			add("app %s mixin %s", an, appNameKey(mx.GetName()))
		}
		if app.GetWrapped() != nil {
			add("app %s wrapped", an)
		}
		for vn := range app.GetViews() {
			add("view %s.%s", an, vn)
		}
		for tn0, t := range app.GetTypes() {
			tn := an + "." + tn0
			var fields map[string]*sysl.Type
			switch x := t.GetType().(type) {
			case *sysl.Type_Tuple_:
				add("type %s kind=tuple", tn)
				fields = x.Tuple.GetAttrDefs()
			case *sysl.Type_Relation_:
				add("type %s kind=relation", tn)
				fields = x.Relation.GetAttrDefs()
				for _, k := range x.Relation.GetPrimaryKey().GetAttrName() {
					add("type %s pk %s", tn, k)
				}
				for _, k := range x.Relation.GetKey() {
					add("type %s key %v", tn, k.GetAttrName())
				}
			case *sysl.Type_Enum_:
				add("type %s kind=enum", tn)
				for k, v := range x.Enum.GetItems() {
					add("type %s item %s=%d", tn, k, v)
				}
			case *sysl.Type_OneOf_:
				add("type %s kind=union", tn)
				for i, mt := range x.OneOf.GetType() {
					add("type %s member %d %s", tn, i, typeCanon(mt))
				}
			default:
				add("type %s kind=alias %s", tn, typeCanon(t))
			}
			out = append(out, projAttrs("type "+tn, t.GetAttrs())...)
			if t.GetDocstring() != "" {
				add("type %s doc=%q", tn, t.GetDocstring())
			}
			for fn, ft := range fields {
				add("field %s.%s %s", tn, fn, typeCanon(ft))
				out = append(out, projAttrs("field "+tn+"."+fn, ft.GetAttrs())...)
				if ft.GetDocstring() != "" {
					add("field %s.%s doc=%q", tn, fn, ft.GetDocstring())
				}
			}
		}
		for key, e := range app.GetEndpoints() {
			en := an + "." + e.GetName()
			if key != e.GetName() {
				add("ep-key-mismatch %s: %q vs %q", an, key, e.GetName())
			}
			add("ep %s", en)
			if e.GetLongName() != "" {
				add("ep %s long=%q", en, e.GetLongName())
			}
			if e.GetDocstring() != "" {
				add("ep %s doc=%q", en, e.GetDocstring())
			}
			out = append(out, projAttrs("ep "+en, e.GetAttrs())...)
			for _, f := range e.GetFlag() {
				add("ep %s flag %s", en, f)
			}
			if e.GetIsPubsub() {
				add("ep %s pubsub", en)
			}
			if e.GetSource() != nil {
				add("ep %s source=%s", en, appNameKey(e.GetSource()))
			}
			for i, p := range e.GetParam() {
				add("ep %s param %d %s %s", en, i, p.GetName(), typeCanon(p.GetType()))
				out = append(out, projAttrs(fmt.Sprintf("ep %s param %d", en, i), p.GetType().GetAttrs())...)
			}
			if rp := e.GetRestParams(); rp != nil {
				add("ep %s rest method=%s path=%s", en, rp.GetMethod(), rp.GetPath())
				for i, q := range rp.GetQueryParam() {
					add("ep %s query %d %s %s", en, i, q.GetName(), typeCanon(q.GetType()))
				}
				for i, q := range rp.GetUrlParam() {
					add("ep %s urlparam %d %s %s", en, i, q.GetName(), typeCanon(q.GetType()))
				}
			}
			projStmts(&out, en, "", e.GetStmt())
		}
	}
	sort.Strings(out)
	return out
}

func projStmts(out *[]string, en, prefix string, ss []*sysl.Statement) {
	add := func(f string, a ...interface{}) { *out = append(*out, fmt.Sprintf(f, a...)) }
	for i, s := range ss {
		p := fmt.Sprintf("%s%d", prefix, i)
		switch x := s.GetStmt().(type) {
		case *sysl.Statement_Action:
			add("stmt %s %s action %q", en, p, x.Action.GetAction())
		case *sysl.Statement_Call:
			var args []string
			for _, a := range x.Call.GetArg() {
				args = append(args, a.GetName())
			}
			ac := ""
			if len(args) > 0 {
				ac = " (" + strings.Join(args, "; ") + ")"
			}
			add("stmt %s %s call %s <- %s%s", en, p, appNameKey(x.Call.GetTarget()), x.Call.GetEndpoint(), ac)
		case *sysl.Statement_Ret:
			add("stmt %s %s ret %q", en, p, x.Ret.GetPayload())
		case *sysl.Statement_Cond:
			add("stmt %s %s cond %q", en, p, x.Cond.GetTest())
			projStmts(out, en, p+".", x.Cond.GetStmt())
		case *sysl.Statement_Loop:
			add("stmt %s %s loop %s %q", en, p, x.Loop.GetMode(), x.Loop.GetCriterion())
			projStmts(out, en, p+".", x.Loop.GetStmt())
		case *sysl.Statement_LoopN:
			add("stmt %s %s loopn %d", en, p, x.LoopN.GetCount())
			projStmts(out, en, p+".", x.LoopN.GetStmt())
		case *sysl.Statement_Foreach:
			add("stmt %s %s foreach %q", en, p, x.Foreach.GetCollection())
			projStmts(out, en, p+".", x.Foreach.GetStmt())
		case *sysl.Statement_Group:
			add("stmt %s %s group %q", en, p, x.Group.GetTitle())
			projStmts(out, en, p+".", x.Group.GetStmt())
		case *sysl.Statement_Alt:
			add("stmt %s %s alt %d", en, p, len(x.Alt.GetChoice()))
			for ci, c := range x.Alt.GetChoice() {
				add("stmt %s %s.c%d choice %q", en, p, ci, c.GetCond())
				projStmts(out, en, fmt.Sprintf("%s.c%d.", p, ci), c.GetStmt())
			}
		default:
			add("stmt %s %s unknown %T", en, p, x)
		}
		*out = append(*out, projAttrs(fmt.Sprintf("stmt %s %s", en, p), s.GetAttrs())...)
	}
}

// SummaryDiff returns the first lines missing from / extra in got relative to want.
func SummaryDiff(want, got gen.Summary) string {
	w, g := map[string]bool{}, map[string]bool{}
	for _, l := range want {
		w[l] = true
	}
	for _, l := range got {
		g[l] = true
	}
	var miss, extra []string
	for _, l := range want {
		if !g[l] {
			miss = append(miss, l)
		}
	}
	for _, l := range got {
		if !w[l] {
			extra = append(extra, l)
		}
	}
	if len(miss) == 0 && len(extra) == 0 {
		return ""
	}
	lim := func(a []string) []string {
		if len(a) > 4 {
			return append(a[:4:4], fmt.Sprintf("... %d more", len(a)-4))
		}
		return a
	}
	return fmt.Sprintf("missing %q extra %q", lim(miss), lim(extra))
}
