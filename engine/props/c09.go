package props

// C09 — serialised models round-trip, and importing a compiled model reproduces it.

import (
	"bytes"
	"encoding/json"
	"fmt"
	"github.com/spf13/afero"
	"io"
	"strings"
	"time"

	"github.com/sirupsen/logrus"
	"google.golang.org/protobuf/proto"

	"github.com/anz-bank/sysl/pkg/parse"
	"github.com/anz-bank/sysl/pkg/pbutil"
	"github.com/anz-bank/sysl/pkg/sysl"
	"verif/engine/core"
	"verif/engine/gen"
)

type c09 struct{}

func init() { core.Register(c09{}) }

func (c09) ID() string    { return "C09" }
func (c09) Level() string { return "exploration" }
func (c09) Rule() string {
	return "models = every compiling .sysl file of the repository + C02 families L1 (packed), L2, L5 + a string sweep (all sequences of <=3 (thorough 4) tokens from a 12-token alphabet of quotes, backslashes, '\": ', double spaces, newline, tab, letters, braces, placed in application name parts, long names, attribute values, array elements and multi-line annotations); each model x {pb, json, textpb} x {indented, compact} x {decode, re-import through an import statement}. Non-trivial = model with at least one application; distinct by (model, configuration)"
}
func (c09) Assumptions() []string {
	return []string{
		"round-trip is checked at the library level (pbutil encoders/decoders) on the model the compiler returned; compact JSON is compared in full (stronger than 'equal once locations are dropped')",
		"re-import compares applications after clearing locations; the import list is ignored",
	}
}
func (c09) CaseTimeout() time.Duration { return 120 * time.Second }
func (c09) InitWorker()                { logrus.SetOutput(io.Discard) }

type c09Case struct {
	File string    `json:"file,omitempty"`
	Spec *gen.Spec `json:"spec,omitempty"`
	Text string    `json:"text,omitempty"`
	Lab  string    `json:"label"`
	Seq  []string  `json:"seq,omitempty"`  // files kind: writes "<encoding>:<model index>"
	Same bool      `json:"same,omitempty"` // files kind: every encoding writes to its own file (one model object, several encodings)
}

var c09Tokens = []string{"\"", "\\", "\": ", "  ", "\n", "\t", "a", "é", ",", "{", "[", ":"}

func c09Strings(maxLen int) []string {
	var out []string
	var rec func(cur string, n int)
	rec = func(cur string, n int) {
		if n > 0 {
			out = append(out, cur)
		}
		if n == maxLen {
			return
		}
		for _, t := range c09Tokens {
			rec(cur+t, n+1)
		}
	}
	rec("", 0)
	return out
}

func sweepSpec(s string) *gen.Spec {
	noNL := strings.ReplaceAll(strings.ReplaceAll(s, "\n", " "), "\t", " ")
	a := &gen.App{
		Name:  []string{"N", "x" + noNL + "y"},
		Long:  "l" + noNL,
		Attrs: []gen.Attr{{Key: "v", Val: gen.Str(noNL)}, {Key: "arr", Val: gen.Arr(gen.Str(noNL), gen.Str("z"+noNL), gen.Arr(gen.Str(noNL)))}},
		Annos: []gen.Attr{{Key: "ml", Val: gen.Str("first\n" + strings.ReplaceAll(s, "\n", "\nnext ") + "\nlast")}},
		Types: []*gen.TypeDecl{{Kind: "type", Name: "T" + noNL, Fields: []*gen.Field{{Name: "f" + noNL, T: gen.TypeExpr{Prim: "int"}, Attrs: []gen.Attr{{Key: "d", Val: gen.Str(noNL)}}}}}},
		Eps:   []*gen.Endpoint{{Kind: "simple", Name: "Ep", Long: noNL, Stmts: []*gen.Stmt{{Kind: "quoted", Text: noNL}, {Kind: "ret", Text: "ok <: string [d=" + fmt.Sprintf("%q", noNL) + "]"}}}},
	}
	return &gen.Spec{Apps: []*gen.App{a}}
}

func (c09) Bounds(tier string) map[string]interface{} {
	n := 2
	if tier == "thorough" {
		n = 3
	}
	return map[string]interface{}{"string_tokens": c09Tokens, "max_tokens": n, "configs": 12}
}

func (c09) Cases(tier string, emit func(string, interface{})) {
	full := tier == "thorough"
	n := 2
	if full {
		n = 3
	}
	for _, s := range c09Strings(n) {
		emit("sweep", c09Case{Spec: sweepSpec(s), Lab: fmt.Sprintf("sweep %q", s)})
	}
	// hand-picked post-processing constructs: collectors, mixins with types, dotted nested types, pubsub
	for i, t := range []string{
		c07Src5,
		"A:\n    Ep:\n        B <- X\n        if c:\n            B <- X\n    .. * <- *:\n        Ep [~seen]\n        B <- X [k=\"v\"]\nB:\n    X:\n        ...\n",
		"A:\n    -|> M\n    Own:\n        ...\nM [~abstract]:\n    !type MT:\n        f <: int\n    !view v(p <: int) -> int:\n        p -> (:\n            x = p\n        )\n    Sh:\n        ...\n",
		"P:\n    <-> Ev:\n        ...\nS:\n    P -> Ev:\n        x\nS2:\n    P -> Ev:\n        y\n    Q -> Other:\n        z\n",
		"A:\n    !type Outer%2EInner:\n        f <: int\n    !type Outer:\n        g <: Outer%2EInner\n    !type Outer%2EInner%2EDeep:\n        h <: string\n",
		// dotted references of 2, 3 and 4 segments rooted at a local type, at another application's type, in fields and parameters
		"Shop:\n    !type Geo:\n        lat <: int\n    !type Addr:\n        geo <: Geo\n    !type Customer:\n        id <: int\n        home <: Addr\n    !type Order:\n        a <: Customer.id\n        b <: Customer.home.geo\n        c <: Customer.home.geo.lat\n        d <: Other.U.z\n        e <: sequence of Customer.home.geo\n    Ep (p <: Customer.home.geo, q <: Other.U.z):\n        return ok <: Customer.home.geo\nOther:\n    !type U:\n        z <: int\n",
	} {
		emit("postproc", c09Case{Text: t, Lab: fmt.Sprintf("postproc-%d", i)})
	}
	var specs []gen.Labeled
	for _, l := range gen.L1() {
		if strings.Contains(l.Label, "packed") {
			specs = append(specs, l)
		}
	}
	specs = append(specs, gen.L5()...)
	if full {
		specs = append(specs, gen.L2()...)
		specs = append(specs, gen.L3(false)...)
	}
	for _, l := range specs {
		emit("gen", c09Case{Spec: l.Spec, Lab: l.Label})
	}
	for _, f := range repoSyslFiles() {
		emit("corpus", c09Case{File: f, Lab: f})
	}
	// operation sequences on one output file: every sequence of two (thorough: three) writes of
	// {large, small, one-application} models in the encodings that share the file; after every write
	// the file must decode to exactly the model just written
	groups := [][]string{{"pb"}, {"json", "json-compact"}, {"textpb", "textpb-compact"}}
	for gi, g := range groups {
		var writes []string
		for _, e := range g {
			for mi := range c09FileModels {
				writes = append(writes, fmt.Sprintf("%s:%d", e, mi))
			}
		}
		var rec func(seq []string)
		rec = func(seq []string) {
			if len(seq) >= 2 {
				emit("files", c09Case{Lab: fmt.Sprintf("files-%d %v", gi, seq), Seq: append([]string{}, seq...)})
			}
			if len(seq) == n {
				return
			}
			for _, w := range writes {
				rec(append(seq, w))
			}
		}
		rec(nil)
	}
	// the same in-memory model written in several encodings one after another (each to its own file): every file
	// must decode to the model as compiled, whatever was written before (a writer must not change its input, and
	// must not rely on anything cached from an earlier write)
	encs := []string{"pb", "json", "json-compact", "textpb", "textpb-compact"}
	for _, e1 := range encs {
		for _, e2 := range encs {
			emit("files", c09Case{Lab: fmt.Sprintf("files-x [%s %s pb]", e1, e2), Seq: []string{e1 + ":0", e2 + ":0", "pb:0"}, Same: true})
			emit("files", c09Case{Lab: fmt.Sprintf("files-x [%s %s textpb]", e1, e2), Seq: []string{e1 + ":2", e2 + ":2", "textpb:2"}, Same: true})
		}
		for _, mut := range []string{"strip", "grow"} {
			for _, e2 := range encs {
				emit("files", c09Case{Lab: fmt.Sprintf("files-m [%s %s %s]", e1, mut, e2), Seq: []string{e1 + ":0", mut + ":0", e2 + ":0"}, Same: true})
			}
		}
	}
}

var c09FileModels = []string{
	c07Src5,
	"A:\n    Ep:\n        ...\n",
	"Shop [owner=\"team\"]:\n    !type Item:\n        id <: int\n        name <: string?\n    /items/{id <: int}:\n        GET ?q=string:\n            Store <- Load\n            return ok <: Item\nStore:\n    Load:\n        ...\n",
}

func c09RunFiles(cs c09Case) core.Outcome {
	var o core.Outcome
	o.Class = "roundtrip-ok"
	fs := afero.NewMemMapFs()
	names := map[string]string{"pb": "out/x.pb", "json": "out/x.pb.json", "json-compact": "out/x.pb.json", "textpb": "out/x.textpb", "textpb-compact": "out/x.textpb"}
	if cs.Same {
		names["json-compact"], names["textpb-compact"] = "out/xc.pb.json", "out/xc.textpb"
	}
	var mods []*sysl.Module
	for _, t := range c09FileModels {
		m, err := parse.NewParser().ParseString(t)
		if err != nil {
			o.Gap = "file model does not compile: " + err.Error()
			return o
		}
		mods = append(mods, m)
	}
	var pristine []*sysl.Module
	for _, m := range mods {
		pristine = append(pristine, proto.Clone(m).(*sysl.Module))
	}
	for step, w := range cs.Seq {
		parts := strings.SplitN(w, ":", 2)
		enc := parts[0]
		var mi int
		fmt.Sscan(parts[1], &mi)
		if enc == "strip" || enc == "grow" {
			// the caller changes the in-memory model between two writes (what 'sysl pb --compact' does to drop the
			// locations, or any library user editing the module): the reference changes with it
			if enc == "strip" {
				clearSourceContexts(mods[mi].ProtoReflect())
			} else {
				for _, app := range mods[mi].GetApps() {
					if app.Attrs == nil {
						app.Attrs = map[string]*sysl.Attribute{}
					}
					app.Attrs["grown"] = &sysl.Attribute{Attribute: &sysl.Attribute_S{S: "a value that makes the message longer"}}
				}
			}
			pristine[mi] = proto.Clone(mods[mi]).(*sysl.Module)
			continue
		}
		m := mods[mi]
		opt := pbutil.OutputOptions{Compact: strings.HasSuffix(enc, "compact")}
		var err error
		switch {
		case enc == "pb":
			err = pbutil.GeneratePBBinaryMessageFile(m, names[enc], fs)
		case strings.HasPrefix(enc, "json"):
			err = pbutil.JSONPBWithOpt(m, names[enc], fs, opt)
		default:
			err = pbutil.TextPBWithOpt(m, names[enc], fs, opt)
		}
		fail := func(sig, msg string) core.Outcome {
			o.Class = "violation"
			o.Violation = fmt.Sprintf("%s: after write #%d (%s) of the sequence: %s", cs.Lab, step+1, w, msg)
			o.Sig = sig
			return o
		}
		if err != nil {
			return fail("file-write-error|"+enc, "writing fails: "+err.Error())
		}
		b, err := afero.ReadFile(fs, names[enc])
		if err != nil {
			return fail("file-missing|"+enc, "the file cannot be read back: "+err.Error())
		}
		if strings.HasPrefix(enc, "json") && !json.Valid(b) {
			return fail("file-json-invalid", "the file is not well-formed JSON")
		}
		back, err := pbutil.FromPBByteContents(names[enc], b)
		if err != nil {
			return fail("file-decode-error|"+strings.SplitN(enc, "-", 2)[0], "the file cannot be decoded: "+err.Error())
		}
		want := pristine[mi]
		if strings.HasSuffix(enc, "compact") {
			want = stripped(want) // the compact forms leave the locations out
			back = stripped(back)
		}
		if !proto.Equal(want, back) {
			return fail("file-roundtrip-differs|"+strings.SplitN(enc, "-", 2)[0], "the file decodes to a different model than the one compiled: "+protoDiff(want, back))
		}
		o.Traces++
	}
	o.NonTrivial = core.Hash(cs.Lab)
	return o
}

var c07Src5 = "MA:\n    -|> MB\n    Own:\n        MB <- Sh\nMB:\n    -|> MC\n    Sh:\n        ...\nMC:\n    Deep:\n        ...\n    !type T%2EU:\n        f <: T\n    !type T%2EV:\n        g <: int\n    !type T:\n        h <: int\nMD:\n    .. * <- *:\n        Own2 [~c1]\n        MB <- Sh [k=\"v\"]\n    Own2:\n        MB <- Sh\n"

type encCfg struct {
	name    string
	ext     string
	compact bool
	enc     func(w io.Writer, m *sysl.Module, o pbutil.OutputOptions) error
}

var c09Encs = []encCfg{
	{"pb", "x.pb", false, func(w io.Writer, m *sysl.Module, o pbutil.OutputOptions) error {
		return pbutil.GeneratePBBinaryMessage(w, m)
	}},
	{"json", "x.pb.json", false, func(w io.Writer, m *sysl.Module, o pbutil.OutputOptions) error { return pbutil.FJSONPBWithOpt(w, m, o) }},
	{"json-compact", "x.pb.json", true, func(w io.Writer, m *sysl.Module, o pbutil.OutputOptions) error { return pbutil.FJSONPBWithOpt(w, m, o) }},
	{"textpb", "x.textpb", false, func(w io.Writer, m *sysl.Module, o pbutil.OutputOptions) error { return pbutil.FTextPBWithOpt(w, m, o) }},
	{"textpb-compact", "x.textpb", true, func(w io.Writer, m *sysl.Module, o pbutil.OutputOptions) error { return pbutil.FTextPBWithOpt(w, m, o) }},
}

func (c09) Run(c core.Case) core.Outcome {
	var cs c09Case
	_ = json.Unmarshal(c.Data, &cs)
	if c.Kind == "files" {
		return c09RunFiles(cs)
	}
	var o core.Outcome
	var m *sysl.Module
	switch {
	case cs.File != "":
		txt, ok := seedText(cs.File)
		if !ok {
			o.Class = "unreadable"
			return o
		}
		mm, _, ok := compileSeed(cs.File, txt)
		if !ok {
			o.Class = "seed-does-not-compile"
			return o
		}
		m = mm
	default:
		text := cs.Text
		if cs.Spec != nil {
			text = gen.Render(cs.Spec, gen.DefaultLayout).Text
		}
		mm, err, crash := compileFiles(filesCase{Root: "t.sysl", Files: map[string]string{"t.sysl": text}}, parse.Settings{})
		if err != nil || crash != "" {
			o.Class = "does-not-compile"
			return o
		}
		m = mm
	}
	o.Class = "roundtrip-ok"
	fail := func(sig, msg string) core.Outcome {
		o.Class = "violation"
		o.Violation = cs.Lab + ": " + msg
		o.Sig = sig
		return o
	}
	for _, e := range c09Encs {
		var buf bytes.Buffer
		if err := e.enc(&buf, m, pbutil.OutputOptions{Compact: e.compact}); err != nil {
			return fail("encode-error|"+e.name, fmt.Sprintf("%s encoding failed: %v", e.name, err))
		}
		if strings.HasPrefix(e.name, "json") && !json.Valid(buf.Bytes()) {
			return fail("json-invalid|"+e.name, fmt.Sprintf("%s output is not well-formed JSON", e.name))
		}
		back, err := pbutil.FromPBByteContents(e.ext, buf.Bytes())
		if err != nil {
			return fail("decode-error|"+e.name, fmt.Sprintf("%s output cannot be decoded: %v", e.name, err))
		}
		if !proto.Equal(m, back) {
			return fail("roundtrip-differs|"+e.name, fmt.Sprintf("decode(encode(m)) != m for %s: %s", e.name, protoDiff(m, back)))
		}
		o.Traces++
		// re-import through an import statement from a root that declares nothing
		fc := filesCase{Root: "root.sysl", Files: map[string]string{"root.sysl": "import " + e.ext + "\n", e.ext: buf.String()}}
		m2, err, crash := compileFiles(fc, parse.Settings{})
		if crash != "" {
			_, frame := core.CrashSig(crash)
			return fail("reimport-crash|"+frame, fmt.Sprintf("importing the %s file crashes the compiler at %s", e.name, frame))
		}
		if err != nil {
			return fail("reimport-error|"+e.name, fmt.Sprintf("importing the %s file fails: %v", e.name, err))
		}
		a, b := stripped(m), stripped(m2)
		a.Imports, b.Imports = nil, nil
		if !proto.Equal(a, b) {
			d := SummaryDiff(Project(a), Project(b))
			cls := diffClass(d)
			if strings.HasPrefix(d, "missing [] extra") {
				// only additions: are they types copied into an application that has mixins?
				for key, app := range a.GetApps() {
					if len(app.GetMixin2()) > 0 && strings.Contains(d, " "+key+".") {
						cls = "types-copied-again-into-app-with-mixins"
					}
				}
			}
			if d == "" {
				// same set of summary lines: look for lines whose multiplicity differs (duplicated list elements)
				ca, cb := map[string]int{}, map[string]int{}
				for _, l := range Project(a) {
					ca[l]++
				}
				for _, l := range Project(b) {
					cb[l]++
				}
				for _, l := range Project(b) {
					if cb[l] != ca[l] {
						d = fmt.Sprintf("line %q occurs %d time(s) in the original and %d time(s) after re-import", l, ca[l], cb[l])
						f := strings.Fields(l)
						cls = "multiplicity " + f[0]
						if strings.Contains(l, " tag ") {
							cls += " tag"
						}
						break
					}
				}
				if d == "" {
					d = protoDiff(a, b)
					cls = "other"
				}
			}
			return fail("reimport-differs|"+cls, fmt.Sprintf("a specification that only imports the %s file compiles to different applications: %s", e.name, d))
		}
		o.Traces++
	}
	if len(m.GetApps()) > 0 {
		o.NonTrivial = core.Hash(cs.Lab)
	}
	return o
}
