//go:build verifov

package props

// C19 — every generator is deterministic: same model, byte-identical output.
// Go's map iteration start is the one source of nondeterminism a sequential generator has; the
// MAPORD seam (runtime/map.go overlay) lets the harness enumerate every start instead of
// re-running and hoping. Every generator x model is run under seed 0 and under all 16 other
// (seed, per-call-site salt) starts; outputs must be byte-identical. A cross-process sub-check
// runs the same generators in fresh processes with the real randomness (a monitor).

import (
	"bytes"
	"context"
	"encoding/json"
	"fmt"
	"io"
	"os"
	"os/exec"
	"runtime/debug"
	"sort"
	"strings"
	"time"

	"github.com/sirupsen/logrus"
	"github.com/spf13/afero"

	"github.com/anz-bank/sysl/pkg/arrai/relmod"
	"github.com/anz-bank/sysl/pkg/cmdutils"
	"github.com/anz-bank/sysl/pkg/database"
	"github.com/anz-bank/sysl/pkg/datamodeldiagram"
	"github.com/anz-bank/sysl/pkg/exporter"
	"github.com/anz-bank/sysl/pkg/integrationdiagram"
	mdata "github.com/anz-bank/sysl/pkg/mermaid/datamodeldiagram"
	mepa "github.com/anz-bank/sysl/pkg/mermaid/endpointanalysisdiagram"
	mints "github.com/anz-bank/sysl/pkg/mermaid/integrationdiagram"
	mseq "github.com/anz-bank/sysl/pkg/mermaid/sequencediagram"
	"github.com/anz-bank/sysl/pkg/parse"
	"github.com/anz-bank/sysl/pkg/pbutil"
	"github.com/anz-bank/sysl/pkg/sequencediagram"
	"github.com/anz-bank/sysl/pkg/sysl"
	"verif/engine/core"
)

type c19 struct{}

func init() {
	core.Register(c19{})
	core.Subcommands["c19one"] = func(args []string) {
		logrus.SetOutput(io.Discard)
		out, err := c19RunGen(args[0], args[1])
		if err != "" {
			fmt.Print("ERR " + err)
			return
		}
		os.Stdout.Write(out)
	}
}

func (c19) ID() string     { return "C19" }
func (c19) Level() string  { return "exploration" }
func (c19) Binary() string { return "ov" }
func (c19) Rule() string {
	return "every generator (model encodings pb/json/textpb indented and compact; sequence, integration (plain, clustered, EPA) and data-model diagrams in PlantUML; Mermaid sequence / integration / endpoint-analysis / data diagrams; swagger and openapi3 export in yaml and json; database creation and delta scripts; importers' Sysl text; relmod.Normalize; compile itself) x models sized so that every map a generator walks has 2..8 entries x all 17 map-iteration starts (off, seeds 0..7 x per-call-site salt 0/1); output bytes identical to the seed-0 run. Non-trivial = the generator iterated at least one map with >= 2 entries; distinct by (generator, model)"
}
func (c19) Assumptions() []string {
	return []string{
		"exhaustive over the map iteration start for maps of at most 8 entries (one bucket: order = insertion-slot order rotated by the start); evidence reports the largest map iterated; larger maps are covered only partially",
		"arr.ai-backed generators (spanner/proto export, SQL and OpenAPI 3 import) cost seconds per run and are in the thorough tier only",
		"the cross-process sub-check (fresh processes, real randomness) is a monitor, not exhaustive",
	}
}
func (c19) CaseTimeout() time.Duration { return 10 * time.Minute }
func (c19) InitWorker() {
	logrus.SetOutput(io.Discard)
	debug.SetMaxStack(128 << 20)
}

// ---- models

// c19ModelFiles: models made of several source files (root a.sysl). In "split" both files open the same
// tables, and columns of the two files sit on the same line and column of their own file, so an order
// taken from source positions alone does not decide between them.
var c19ModelFiles = map[string]map[string]string{
	"split": {
		"a.sysl": "import b\n\nShop:\n    !table Customer:\n        id <: int [~pk]\n        zeta <: string\n        yankee <: string?\n        xray <: date\n    !table Order:\n        oid <: int [~pk]\n        cust <: Customer.id\n        zz <: int\n    !type Basket:\n        owner <: Customer\n        lines <: sequence of Order\n    !type Shelf [json_map_key=\"item_id\"]:\n        item_id <: string\n        item <: Basket\n        where <: Customer\n        updated <: date\n        second <: Order\n",
		"b.sysl": "# columns shared with other models\nShop:\n    !table Customer:\n        note <: string\n        alpha <: string\n        bravo <: string?\n        charlie <: int\n    !table Order:\n        oa <: int\n        ob <: Customer.id\n        oc <: string\n    !type Basket:\n        count <: int\n        first <: Order\n        label <: string?\n",
	},
}

func c19Parse(model string) (*sysl.Module, error) {
	if files, ok := c19ModelFiles[model]; ok {
		fs := afero.NewMemMapFs()
		for name, text := range files {
			_ = afero.WriteFile(fs, name, []byte(text), 0o644)
		}
		return parse.NewParser().ParseFromFs("a.sysl", fs)
	}
	return parse.NewParser().ParseString(c19Models[model])
}

var c19Models = map[string]string{
	"rich": `Shop [version="1.0", owner="team", ~core, ~public, grp="g1"]:
    @doc = "d"
    !type Item [~t1, ~t2]:
        id <: int
        name <: string?
        tags <: sequence of string
        owner <: Owner
        parts <: sequence of Part?
        when <: datetime
    !type Owner:
        oid <: int
        nick <: string?
        since <: date
    !type Part:
        p <: string
        self <: Part?
    !enum Kind:
        A: 1
        B: 2
        C: 3
    !alias Code:
        string
    !table Stock:
        id <: int [~pk, ~autoinc]
        qty <: int
        item <: Depot.id
    !table Depot:
        id <: int [~pk]
        city <: string(20)
    !table Region:
        regionId <: int [~pk]
    !table Customer:
        customerId <: int [~pk]
        region <: Region.regionId
    !table Order:
        orderId <: int [~pk]
        region <: Region.regionId
        customer <: Customer.customerId
        depot <: Depot.id
    !table Pack:
        packId <: int [~pk]
        region <: Region.regionId
    /items/{id <: int}:
        GET ?limit=int?&must=string&third=bool:
            Store <- Load
            Audit <- Log
            return ok <: Item
            return 404 <: Owner
        POST (body <: Item [~body], trace <: string [~header], span <: string [~header]):
            Store <- Save
            if big:
                Audit <- Log
            else:
                Notify <- Push
            return 200 <: sequence of Item
    /owners:
        GET:
            Store <- Load
            return ok <: sequence of Owner
    Refresh:
        Store <- Load
        . <- Helper
    Helper:
        Audit <- Log
Store [~db, grp="g2"]:
    Load:
        Audit <- Log
        return ok <: string
    Save:
        Audit <- Log
Audit [grp="g1"]:
    Log:
        ...
Notify [grp="g2"]:
    Push:
        Audit <- Log
        Store <- Save
SeqProj [seqtitle="%(epname)", owner="docs", blackboxes=[["Store <- Load", "application level note"], ["Audit <- Log", "x"]]]:
    SEQ-A [blackboxes=[["Store <- Load", "not shown here"]]]:
        Shop <- Refresh
    SEQ-B:
        Shop <- Refresh
    SEQ-C [seqtitle="title %(epname)", appfmt="%(appname)!"]:
        Shop <- GET /items/{id}
Proj:
    view [exclude=["Notify"], passthrough=["Store"]]:
        Shop
        Store
    all:
        Shop
        Store
        Audit
        Notify
    callers:
        Audit
    callers2 [passthrough=["Notify"]]:
        Store
        Audit
`,
	"mixins":   c07Src5Model,
	"restonly": "Shop [version=\"1.0\"]:\n    !type T:\n        fa <: int\n        fb <: string?\n        fc <: sequence of Other\n        fd <: Other?\n        fe <: bool\n    !type Other:\n        oid <: int\n        note <: string?\n        more <: date\n    !enum Kind:\n        A: 1\n        B: 2\n        C: 3\n    /items/{id <: int}:\n        GET ?limit=int?&must=string&third=bool:\n            return ok <: T\n            return 404 <: Other\n        POST (body <: T [~body], trace <: string [~header], span <: string [~header]):\n            return 200 <: sequence of T\n    /others:\n        GET:\n            return ok <: sequence of Other\n",
	"attrs":    "P [a=\"1\", b=\"2\", ~t1, ~t2]:\n    @c = \"3\"\n    @d = [\"x\", \"y\"]\n    E1 [x=\"1\", y=\"2\"]:\n        Q <- Ev\n    E2:\n        ...\n    E3:\n        ...\n    !enum En:\n        A: 1\n        B: 2\n        C: 3\nQ:\n    <-> Ev:\n        ...\nSub:\n    Q -> Ev:\n        P <- E2\n    Q -> Ev2:\n        P <- E3\n",
}

const c07Src5Model = "MA:\n    -|> MB\n    Own:\n        MB <- Sh\nMB:\n    -|> MC\n    Sh:\n        ...\nMC:\n    Deep:\n        ...\n    !type T%2EU:\n        f <: T\n    !type T%2EV:\n        g <: int\n    !type T:\n        h <: int\nMD:\n    .. * <- *:\n        Own2 [~c1]\n        MB <- Sh [k=\"v\"]\n    Own2:\n        MB <- Sh\n"

var c19OldRich = strings.Replace(strings.Replace(c19Models["rich"], "        qty <: int\n", "        qty <: int\n        old <: string\n", 1), "        city <: string(20)\n", "        city <: string\n        zip <: int\n", 1)

// ---- generators

type c19Gen struct {
	Name   string
	Models []string
	Slow   bool
	Run    func(m *sysl.Module, model string) ([]byte, error)
}

func nullLogger() *logrus.Logger {
	lg := logrus.New()
	lg.SetOutput(io.Discard)
	return lg
}

func joinMap(m map[string]string) []byte {
	var ks []string
	for k := range m {
		ks = append(ks, k)
	}
	sort.Strings(ks)
	var b bytes.Buffer
	for _, k := range ks {
		b.WriteString("=== " + k + "\n" + m[k] + "\n")
	}
	return b.Bytes()
}

func c19Gens() []c19Gen {
	all := []string{"rich", "mixins", "attrs", "split"}
	enc := func(name string, f func(w io.Writer, m *sysl.Module) error) c19Gen {
		return c19Gen{Name: name, Models: all, Run: func(m *sysl.Module, _ string) ([]byte, error) {
			var b bytes.Buffer
			err := f(&b, m)
			return b.Bytes(), err
		}}
	}
	gens := []c19Gen{
		enc("pb-binary", func(w io.Writer, m *sysl.Module) error { return pbutil.GeneratePBBinaryMessage(w, m) }),
		enc("pb-json", func(w io.Writer, m *sysl.Module) error { return pbutil.FJSONPB(w, m) }),
		enc("pb-json-compact", func(w io.Writer, m *sysl.Module) error {
			return pbutil.FJSONPBWithOpt(w, m, pbutil.OutputOptions{Compact: true})
		}),
		enc("pb-textpb", func(w io.Writer, m *sysl.Module) error { return pbutil.FTextPB(w, m) }),
		enc("pb-textpb-compact", func(w io.Writer, m *sysl.Module) error {
			return pbutil.FTextPBWithOpt(w, m, pbutil.OutputOptions{Compact: true})
		}),
		{Name: "sd-plantuml", Models: []string{"rich"}, Run: func(m *sysl.Module, _ string) ([]byte, error) {
			var b bytes.Buffer
			for _, start := range []string{"Shop <- GET /items/{id}", "Shop <- POST /items/{id}", "Shop <- Refresh"} {
				for _, group := range []string{"", "grp"} {
					l := &cmdutils.Labeler{}
					p := &sequencediagram.SequenceDiagParam{Endpoints: []string{start}, Group: group}
					p.AppLabeler, p.EndpointLabeler = l, l
					out, err := sequencediagram.GenerateSequenceDiag(m, p, nullLogger())
					if err != nil {
						return nil, err
					}
					b.WriteString(out)
				}
			}
			return b.Bytes(), nil
		}},
		{Name: "sd-project-plantuml", Models: []string{"rich"}, Run: func(m *sysl.Module, _ string) ([]byte, error) {
			out, err := sequencediagram.DoConstructSequenceDiagrams(&cmdutils.CmdContextParamSeqgen{AppsFlag: []string{"SeqProj"}, Output: "%(epname)", EndpointFormat: "%(epname)", AppFormat: "%(appname)"}, m, nullLogger())
			if err != nil {
				return nil, err
			}
			return joinMap(out), nil
		}},
		{Name: "ints-plantuml", Models: []string{"rich"}, Run: func(m *sysl.Module, _ string) ([]byte, error) {
			var b bytes.Buffer
			for _, v := range [][2]bool{{false, false}, {true, false}, {false, true}} {
				out, err := integrationdiagram.GenerateIntegrations(&cmdutils.CmdContextParamIntgen{Project: "Proj", Output: "%(epname)", Clustered: v[0], EPA: v[1]}, m, nullLogger())
				if err != nil {
					return nil, err
				}
				b.Write(joinMap(out))
			}
			return b.Bytes(), nil
		}},
		{Name: "datamodel-plantuml", Models: []string{"rich", "mixins", "split"}, Run: func(m *sysl.Module, _ string) ([]byte, error) {
			var b bytes.Buffer
			for _, o := range []string{"all", "%(epname)"} {
				out, err := datamodeldiagram.GenerateDataModels(&cmdutils.CmdContextParamDatagen{Output: o, Direct: true, ClassFormat: "%(classname)"}, m, nullLogger())
				if err != nil {
					return nil, err
				}
				b.Write(joinMap(out))
			}
			return b.Bytes(), nil
		}},
		{Name: "mermaid-sequence", Models: []string{"rich"}, Run: func(m *sysl.Module, _ string) ([]byte, error) {
			var b bytes.Buffer
			for _, ep := range []string{"GET /items/{id}", "POST /items/{id}", "Refresh"} {
				out, err := mseq.GenerateSequenceDiagram(m, "Shop", ep)
				if err != nil {
					return nil, err
				}
				b.WriteString(out)
			}
			return b.Bytes(), nil
		}},
		{Name: "mermaid-integration", Models: []string{"rich", "attrs"}, Run: func(m *sysl.Module, _ string) ([]byte, error) {
			out, err := mints.GenerateFullIntegrationDiagram(m)
			return []byte(out), err
		}},
		{Name: "mermaid-integration-app", Models: []string{"rich"}, Run: func(m *sysl.Module, _ string) ([]byte, error) {
			out, err := mints.GenerateMultipleAppIntegrationDiagram(m, []string{"Shop", "Store"})
			return []byte(out), err
		}},
		{Name: "mermaid-epa", Models: []string{"rich"}, Run: func(m *sysl.Module, _ string) ([]byte, error) {
			out, err := mepa.GenerateEndpointAnalysisDiagram(m)
			return []byte(out), err
		}},
		{Name: "mermaid-data", Models: []string{"rich", "split"}, Run: func(m *sysl.Module, _ string) ([]byte, error) {
			out, err := mdata.GenerateFullDataDiagram(m)
			return []byte(out), err
		}},
		{Name: "db-create", Models: []string{"rich", "split"}, Run: func(m *sysl.Module, _ string) ([]byte, error) {
			v := database.MakeDatabaseScriptView("t", nullLogger())
			return []byte(v.GenerateDatabaseScriptCreate(m.GetApps()["Shop"].GetTypes(), "postgres", "Shop")), nil
		}},
		{Name: "db-delta", Models: []string{"rich", "split"}, Run: func(m *sysl.Module, _ string) ([]byte, error) {
			old, err := parse.NewParser().ParseString(c19OldRich)
			if err != nil {
				return nil, err
			}
			v := database.MakeDatabaseScriptView("t", nullLogger())
			outs := v.ProcessModSysls(old.GetApps(), m.GetApps(), []string{"Shop"}, "out", "postgres")
			fs := afero.NewMemMapFs()
			if err := database.GenerateFromSQLMap(outs, fs, nullLogger()); err != nil {
				return nil, err
			}
			return afero.ReadFile(fs, "out/Shop.sql")
		}},
		{Name: "relmod", Models: all, Run: func(m *sysl.Module, _ string) ([]byte, error) {
			s, err := relmod.Normalize(context.Background(), m)
			if err != nil {
				return nil, err
			}
			// relations are sets: compare as sorted rows
			return []byte(strings.Join(SchemaRows(s), "\n")), nil
		}},
		{Name: "compile", Models: all, Run: func(m *sysl.Module, model string) ([]byte, error) {
			m2, err := c19Parse(model)
			if err != nil {
				return nil, err
			}
			var b bytes.Buffer
			err = pbutil.FTextPB(&b, m2)
			return b.Bytes(), err
		}},
		{Name: "import-openapi2", Models: []string{"rich"}, Run: func(m *sysl.Module, _ string) ([]byte, error) {
			d := oaDocs("quick")
			var b bytes.Buffer
			for _, i := range []int{300, 310, len(d)/2 - 1} {
				if d[i].Version != 2 {
					continue
				}
				t, e := runImport("doc.yaml", d[i].render(), "")
				b.WriteString(t + e)
			}
			packed := packOA(d, 2, 40, 20)
			t, e := runImport("doc.yaml", packed[0].render(), "")
			b.WriteString(t + e)
			t, e = runImport("doc.yaml", packed[len(packed)-1].render(), "")
			b.WriteString(t + e)
			return b.Bytes(), nil
		}},
		{Name: "import-xsd", Models: []string{"rich"}, Run: func(m *sysl.Module, _ string) ([]byte, error) {
			d := xsdDocs("quick")
			t, e := runImport("doc.xsd", d[len(d)-1].render(), "")
			return []byte(t + e), nil
		}},
	}
	for _, fm := range [][2]string{{"openapi3", "yaml"}, {"openapi3", "json"}, {"swagger", "yaml"}, {"swagger", "json"}} {
		fm := fm
		gens = append(gens, c19Gen{Name: "export-" + fm[0] + "-" + fm[1], Models: []string{"restonly"}, Run: func(m *sysl.Module, _ string) ([]byte, error) {
			out, err, crash := exportApp(m, fm[0], fm[1])
			if crash != "" {
				return nil, fmt.Errorf("panic: %s", strings.SplitN(crash, "\n", 2)[0])
			}
			return out, err
		}})
	}
	// arr.ai-backed generators: thorough only
	for _, f := range []string{"spanner", "proto"} {
		f := f
		gens = append(gens, c19Gen{Name: "export-" + f, Models: []string{"rich"}, Slow: true, Run: func(m *sysl.Module, _ string) ([]byte, error) {
			fs := afero.NewMemMapFs()
			x := exporter.MakeTransformExporter(fs, nullLogger(), "/", "out."+f, f)
			var b bytes.Buffer
			err := x.ExportToWriter(&b, []*sysl.Module{m}, []string{"rich.sysl"})
			return b.Bytes(), err
		}})
	}
	gens = append(gens,
		c19Gen{Name: "import-openapi3", Models: []string{"rich"}, Slow: true, Run: func(m *sysl.Module, _ string) ([]byte, error) {
			d := packOA(oaDocs("quick"), 3, 40, 20)
			t, e := runImport("doc.yaml", d[0].render(), "")
			return []byte(t + e), nil
		}},
		c19Gen{Name: "import-sql", Models: []string{"rich"}, Slow: true, Run: func(m *sysl.Module, _ string) ([]byte, error) {
			t, e := runImport("doc.sql", sqlDocs("quick")[0].render(), "spannerSQL")
			return []byte(t + e), nil
		}},
	)
	return gens
}

func c19RunGen(gen, model string) (out []byte, errs string) {
	defer func() {
		if r := recover(); r != nil {
			errs = fmt.Sprintf("PANIC: %v", r)
		}
	}()
	m, err := c19Parse(model)
	if err != nil {
		return nil, "model does not compile: " + err.Error()
	}
	for _, g := range c19Gens() {
		if g.Name == gen {
			b, err := g.Run(m, model)
			if err != nil {
				return nil, "generator error: " + err.Error()
			}
			return b, ""
		}
	}
	return nil, "unknown generator " + gen
}

type c19Case struct {
	Gen   string `json:"gen"`
	Model string `json:"model"`
	Cross bool   `json:"cross,omitempty"`
}

func (c19) Bounds(tier string) map[string]interface{} {
	return map[string]interface{}{"generators": len(c19Gens()), "starts": 17}
}

func (c19) Cases(tier string, emit func(string, interface{})) {
	for _, g := range c19Gens() {
		if g.Slow && tier != "thorough" {
			continue
		}
		for _, m := range g.Models {
			emit("mapord", c19Case{Gen: g.Name, Model: m})
			if !g.Slow {
				emit("crossprocess", c19Case{Gen: g.Name, Model: m, Cross: true})
			}
		}
	}
}

func (c19) Run(c core.Case) core.Outcome {
	var cs c19Case
	_ = json.Unmarshal(c.Data, &cs)
	var o core.Outcome
	o.Class = "deterministic"
	if cs.Cross {
		self, _ := os.Executable()
		var first []byte
		for i := 0; i < 4; i++ {
			out, err := exec.Command(self, "c19one", cs.Gen, cs.Model).Output()
			if err != nil {
				o.Gap = "subprocess failed: " + err.Error()
				return o
			}
			o.Traces++
			if i == 0 {
				first = out
				if bytes.HasPrefix(out, []byte("ERR ")) {
					o.Class = "generator-error"
					return o
				}
				continue
			}
			if !bytes.Equal(first, out) {
				o.Class = "violation"
				o.Violation = fmt.Sprintf("generator %s on model %s gives different bytes in separate processes: %s", cs.Gen, cs.Model, firstDiff(string(first), string(out)))
				o.Sig = "nondeterministic|" + cs.Gen
				o.Witnessed = true // two different outputs of one model were observed: that is the violation, whether or not it recurs
				return o
			}
		}
		o.NonTrivial = "cross|" + cs.Gen + "|" + cs.Model
		return o
	}
	verifMapControl(true, 0, 0)
	base, errs := c19RunGen(cs.Gen, cs.Model)
	maxMap, _ := verifMapControl(true, 0, 0)
	if errs != "" {
		if strings.HasPrefix(errs, "PANIC") {
			o.Class = "violation"
			o.Violation = fmt.Sprintf("generator %s on model %s: %s", cs.Gen, cs.Model, errs)
			o.Sig = "crash|" + cs.Gen
			return o
		}
		o.Class = "generator-error"
		o.Gap = fmt.Sprintf("generator %s on model %s: %s", cs.Gen, cs.Model, errs)
		return o
	}
	// the command repeated on ONE in-memory model (a generator that writes into its input changes its own
	// second result)
	if m, err := c19Parse(cs.Model); err == nil {
		for _, g := range c19Gens() {
			if g.Name != cs.Gen {
				continue
			}
			var outs [3][]byte
			for r := 0; r < 3; r++ {
				func() {
					defer func() { _ = recover() }()
					outs[r], _ = g.Run(m, cs.Model)
				}()
				o.Traces++
			}
			if !bytes.Equal(outs[0], outs[1]) || !bytes.Equal(outs[0], outs[2]) {
				d := firstDiff(string(outs[0]), string(outs[1]))
				if bytes.Equal(outs[0], outs[1]) {
					d = firstDiff(string(outs[0]), string(outs[2]))
				}
				o.Class = "violation"
				o.Violation = fmt.Sprintf("generator %s on model %s: repeating the generation on the same in-memory model gives different output: %s", cs.Gen, cs.Model, d)
				o.Sig = "not-repeatable|" + cs.Gen
				o.Witnessed = true // two different outputs of one model were observed: that is the violation, whether or not it recurs
				return o
			}
		}
	}
	for k := uintptr(0); k <= 1; k++ {
		for seed := uintptr(0); seed < 8; seed++ {
			verifMapControl(true, seed, k)
			got, errs2 := c19RunGen(cs.Gen, cs.Model)
			mx, _ := verifMapControl(true, 0, 0)
			if mx > maxMap {
				maxMap = mx
			}
			o.Traces++
			if errs2 != errs || !bytes.Equal(base, got) {
				o.Class = "violation"
				o.Violation = fmt.Sprintf("generator %s on model %s: output under map-iteration start (seed=%d, salt=%d) differs from the seed-0 output: %s %s", cs.Gen, cs.Model, seed, k, firstDiff(string(base), string(got)), errs2)
				o.Sig = "nondeterministic|" + cs.Gen
				o.Witnessed = true // two different outputs of one model were observed: that is the violation, whether or not it recurs
				verifMapControl(true, 0, 0)
				return o
			}
		}
	}
	// and with the seam off (the runtime's own random start), once
	verifMapControl(false, 0, 0)
	got, _ := c19RunGen(cs.Gen, cs.Model)
	verifMapControl(true, 0, 0)
	o.Traces++
	if !bytes.Equal(base, got) {
		o.Class = "violation"
		o.Violation = fmt.Sprintf("generator %s on model %s: output with the runtime's random map order differs from the seed-0 output: %s", cs.Gen, cs.Model, firstDiff(string(base), string(got)))
		o.Sig = "nondeterministic|" + cs.Gen
		o.Witnessed = true // two different outputs of one model were observed: that is the violation, whether or not it recurs
		return o
	}
	o.Extra = map[string]int{"max_map_entries_iterated_" + cs.Gen: maxMap}
	if maxMap >= 2 {
		o.NonTrivial = cs.Gen + "|" + cs.Model
	}
	return o
}
