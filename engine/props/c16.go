package props

// C16 — database scripts are complete and dependency-ordered; delta scripts are sound.
// Explicit-state BFS over relational schemas (states) and edit operations (transitions); the
// real generators run on every state (create script) and every transition (delta script); a
// reference DDL interpreter turns the emitted SQL into a catalog.

import (
	"encoding/json"
	"fmt"
	"io"
	"regexp"
	"runtime/debug"
	"sort"
	"strings"
	"time"

	"github.com/sirupsen/logrus"
	"github.com/spf13/afero"

	"github.com/anz-bank/sysl/pkg/database"
	"github.com/anz-bank/sysl/pkg/sysl"
	"verif/engine/core"
)

type c16 struct{}

func init() { core.Register(c16{}) }

func (c16) ID() string    { return "C16" }
func (c16) Level() string { return "model_checking" }
func (c16) Rule() string {
	return "explicit-state BFS: states = relational schemas (tables with an id key, optional autoincrement, optional string/date columns, optional foreign key to an earlier table; canonical form = sorted tables/columns), transitions = edit operations (add/drop/retype column, add/drop table, set/unset key, add/drop/retarget reference, toggle autoincrement); every base schema of <=2 tables (thorough 3) expanded to depth 1 (thorough 2) with canonical-state de-duplication; the real create generator runs in every state, the real delta generator on every edge and every 2-chain; plus two-file placements of the tables. Non-trivial = an edge whose delta script contains at least one statement; distinct by (old, new)"
}
func (c16) Assumptions() []string {
	return []string{
		"the reference DDL interpreter implements the emitted subset with PostgreSQL semantics: CREATE TABLE requires referenced tables/columns to exist, DROP COLUMN drops the table's own constraints that use the column and fails if another table references it, DROP CONSTRAINT requires the constraint to exist, bigserial is bigint with a sequence default; an unknown statement is an ORACLE-GAP, never ignored",
		"column order is not compared; primary keys are compared as sets",
	}
}
func (c16) CaseTimeout() time.Duration { return 5 * time.Minute }
func (c16) InitWorker() {
	logrus.SetOutput(io.Discard)
	debug.SetMaxStack(64 << 20)
}

// ---- schemas

type dbCol struct {
	Name    string `json:"n"`
	Type    string `json:"t"` // int, string, string20, date
	PK      bool   `json:"pk,omitempty"`
	Autoinc bool   `json:"ai,omitempty"`
	RefT    string `json:"rt,omitempty"`
	RefC    string `json:"rc,omitempty"`
}
type dbTable struct {
	Name string  `json:"name"`
	Cols []dbCol `json:"cols"`
}
type dbSchema struct {
	Tables []dbTable `json:"tables"`
}

func (s dbSchema) clone() dbSchema {
	var c dbSchema
	for _, t := range s.Tables {
		nt := dbTable{Name: t.Name, Cols: append([]dbCol{}, t.Cols...)}
		c.Tables = append(c.Tables, nt)
	}
	return c
}

func (s dbSchema) canon() string {
	var ts []string
	for _, t := range s.Tables {
		var cs []string
		for _, c := range t.Cols {
			cs = append(cs, fmt.Sprintf("%s:%s:%v:%v:%s.%s", c.Name, c.Type, c.PK, c.Autoinc, c.RefT, c.RefC))
		}
		sort.Strings(cs)
		ts = append(ts, t.Name+"("+strings.Join(cs, ",")+")")
	}
	sort.Strings(ts)
	return strings.Join(ts, ";")
}

func (s dbSchema) table(n string) *dbTable {
	for i := range s.Tables {
		if s.Tables[i].Name == n {
			return &s.Tables[i]
		}
	}
	return nil
}

func (t *dbTable) col(n string) *dbCol {
	for i := range t.Cols {
		if t.Cols[i].Name == n {
			return &t.Cols[i]
		}
	}
	return nil
}

// valid: references point to existing key columns of other tables, no cycles, every table has a column.
func (s dbSchema) valid() bool {
	for _, t := range s.Tables {
		if len(t.Cols) == 0 {
			return false
		}
		for _, c := range t.Cols {
			if c.RefT != "" {
				rt := s.table(c.RefT)
				if rt == nil || c.RefT == t.Name {
					return false
				}
				rc := rt.col(c.RefC)
				if rc == nil {
					return false
				}
			}
			if c.Autoinc && (c.Type != "int" || c.RefT != "") {
				return false
			}
		}
	}
	// acyclic
	state := map[string]int{}
	var visit func(n string) bool
	visit = func(n string) bool {
		if state[n] == 1 {
			return false
		}
		if state[n] == 2 {
			return true
		}
		state[n] = 1
		for _, c := range s.table(n).Cols {
			if c.RefT != "" && !visit(c.RefT) {
				return false
			}
		}
		state[n] = 2
		return true
	}
	for _, t := range s.Tables {
		if !visit(t.Name) {
			return false
		}
	}
	return true
}

func (s dbSchema) render(app string) string {
	var b strings.Builder
	b.WriteString(app + ":\n")
	if len(s.Tables) == 0 {
		b.WriteString("    ...\n")
	}
	for _, t := range s.Tables {
		b.WriteString(renderTable(t))
	}
	return b.String()
}

func renderTable(t dbTable) string {
	var b strings.Builder
	fmt.Fprintf(&b, "    !table %s:\n", t.Name)
	for _, c := range t.Cols {
		ty := map[string]string{"int": "int", "string": "string", "string20": "string(20)", "date": "date"}[c.Type]
		if c.RefT != "" {
			ty = c.RefT + "." + c.RefC
		}
		var tags []string
		if c.PK {
			tags = append(tags, "~pk")
		}
		if c.Autoinc {
			tags = append(tags, "~autoinc")
		}
		at := ""
		if len(tags) > 0 {
			at = " [" + strings.Join(tags, ", ") + "]"
		}
		fmt.Fprintf(&b, "        %s <: %s%s\n", c.Name, ty, at)
	}
	return b.String()
}

func baseSchemas(maxTables int) []dbSchema {
	var out []dbSchema
	mkTable := func(name string, ai bool, extra int, fk string) dbTable {
		t := dbTable{Name: name, Cols: []dbCol{{Name: "id", Type: "int", PK: true, Autoinc: ai}}}
		if extra&1 != 0 {
			t.Cols = append(t.Cols, dbCol{Name: "v", Type: "string"})
		}
		if extra&2 != 0 {
			t.Cols = append(t.Cols, dbCol{Name: "d", Type: "date"})
		}
		if fk != "" {
			t.Cols = append(t.Cols, dbCol{Name: "r", Type: "int", RefT: fk, RefC: "id"})
		}
		return t
	}
	var rec func(cur []dbTable)
	rec = func(cur []dbTable) {
		if len(cur) > 0 {
			out = append(out, dbSchema{Tables: append([]dbTable{}, cur...)})
		}
		if len(cur) == maxTables {
			return
		}
		name := fmt.Sprintf("T%d", len(cur))
		for _, ai := range []bool{false, true} {
			for extra := 0; extra < 4; extra++ {
				fks := []string{""}
				for _, p := range cur {
					fks = append(fks, p.Name)
				}
				for _, fk := range fks {
					if len(cur) >= 2 && extra == 3 {
						continue
					}
					rec(append(cur, mkTable(name, ai, extra, fk)))
				}
			}
		}
	}
	rec(nil)
	return out
}

type dbEdit struct {
	Kind string
	Desc string
	To   dbSchema
}

// edits: all single edit operations applicable to s (only valid results).
func edits(s dbSchema) []dbEdit {
	var out []dbEdit
	add := func(kind, desc string, n dbSchema) {
		if n.valid() && n.canon() != s.canon() {
			out = append(out, dbEdit{kind, desc, n})
		}
	}
	for ti, t := range s.Tables {
		// add column
		for _, nc := range []dbCol{{Name: "c1", Type: "int"}, {Name: "c1", Type: "string20"}, {Name: "c1", Type: "date"}, {Name: "c1", Type: "int", PK: true}} {
			if t.col(nc.Name) == nil {
				n := s.clone()
				n.Tables[ti].Cols = append(n.Tables[ti].Cols, nc)
				add("add-column", fmt.Sprintf("add column %s.%s %s pk=%v", t.Name, nc.Name, nc.Type, nc.PK), n)
			}
		}
		for _, o := range s.Tables {
			// a referencing column whose name sorts after ("c2") and before ("b0") the plain added column "c1":
			// several columns added to one table are processed in name order
			for _, fk := range []string{"c2", "b0"} {
				if o.Name != t.Name && t.col(fk) == nil {
					n := s.clone()
					n.Tables[ti].Cols = append(n.Tables[ti].Cols, dbCol{Name: fk, Type: "int", RefT: o.Name, RefC: "id"})
					add("add-fk-column", fmt.Sprintf("add column %s.%s referencing %s.id", t.Name, fk, o.Name), n)
				}
			}
		}
		for ci, c := range t.Cols {
			// drop column
			n := s.clone()
			n.Tables[ti].Cols = append(append([]dbCol{}, n.Tables[ti].Cols[:ci]...), n.Tables[ti].Cols[ci+1:]...)
			kind := "drop-column"
			if c.RefT != "" {
				kind = "drop-fk-column"
			} else if c.PK {
				kind = "drop-pk-column"
			}
			add(kind, fmt.Sprintf("drop column %s.%s", t.Name, c.Name), n)
			if c.RefT == "" {
				// retype
				for _, nt := range []string{"int", "string", "string20", "date"} {
					if nt != c.Type && !c.Autoinc {
						n := s.clone()
						n.Tables[ti].Cols[ci].Type = nt
						add("retype", fmt.Sprintf("retype %s.%s %s -> %s", t.Name, c.Name, c.Type, nt), n)
					}
				}
				// toggle autoinc
				if c.Type == "int" {
					n := s.clone()
					n.Tables[ti].Cols[ci].Autoinc = !c.Autoinc
					add("toggle-autoinc", fmt.Sprintf("autoinc %s.%s -> %v", t.Name, c.Name, !c.Autoinc), n)
				}
				// add reference
				for _, o := range s.Tables {
					if o.Name != t.Name && c.Type == "int" && !c.Autoinc {
						n := s.clone()
						n.Tables[ti].Cols[ci].RefT, n.Tables[ti].Cols[ci].RefC = o.Name, "id"
						add("add-reference", fmt.Sprintf("%s.%s now references %s.id", t.Name, c.Name, o.Name), n)
					}
				}
			} else {
				// drop reference
				n := s.clone()
				n.Tables[ti].Cols[ci].RefT, n.Tables[ti].Cols[ci].RefC = "", ""
				add("drop-reference", fmt.Sprintf("%s.%s no longer references %s", t.Name, c.Name, c.RefT), n)
				// retarget
				for _, o := range s.Tables {
					if o.Name != t.Name && o.Name != c.RefT {
						n := s.clone()
						n.Tables[ti].Cols[ci].RefT = o.Name
						add("retarget-reference", fmt.Sprintf("%s.%s references %s instead of %s", t.Name, c.Name, o.Name, c.RefT), n)
					}
				}
			}
			// toggle pk
			n2 := s.clone()
			n2.Tables[ti].Cols[ci].PK = !c.PK
			kind2 := "set-pk"
			if c.PK {
				kind2 = "unset-pk"
			}
			add(kind2, fmt.Sprintf("pk %s.%s -> %v", t.Name, c.Name, !c.PK), n2)
		}
		// drop table
		n := s.clone()
		n.Tables = append(append([]dbTable{}, n.Tables[:ti]...), n.Tables[ti+1:]...)
		if len(n.Tables) > 0 {
			add("drop-table", "drop table "+t.Name, n)
		}
	}
	// add table
	if len(s.Tables) < 4 {
		name := fmt.Sprintf("N%d", len(s.Tables))
		n := s.clone()
		n.Tables = append(n.Tables, dbTable{Name: name, Cols: []dbCol{{Name: "id", Type: "int", PK: true}, {Name: "v", Type: "string20"}}})
		add("add-table", "add table "+name, n)
		for _, o := range s.Tables {
			n := s.clone()
			n.Tables = append(n.Tables, dbTable{Name: name, Cols: []dbCol{{Name: "id", Type: "int", PK: true, Autoinc: true}, {Name: "r", Type: "int", RefT: o.Name, RefC: "id"}}})
			add("add-table-fk", "add table "+name+" referencing "+o.Name, n)
			// a new table that the old one now references is a combined edit: not generated
		}
	}
	return out
}

// ---- catalog / DDL interpreter

type catTable struct {
	Cols map[string]string    // name -> type
	PK   map[string][]string  // constraint -> cols
	FK   map[string][3]string // constraint -> (col, reftable, refcol)
}
type catalog struct {
	Tables  map[string]*catTable
	Created map[string]int
}

func newCatalog() *catalog {
	return &catalog{Tables: map[string]*catTable{}, Created: map[string]int{}}
}

var (
	reCreate  = regexp.MustCompile(`(?s)^CREATE TABLE (\w+)\s*\((.*)\)$`)
	reAddCol  = regexp.MustCompile(`^ALTER TABLE (\w+) ADD COLUMN (\w+)\s*(.*)$`)
	reDropCol = regexp.MustCompile(`^ALTER TABLE (\w+) DROP COLUMN (\w+)$`)
	reDropCon = regexp.MustCompile(`^ALTER TABLE (\w+) DROP CONSTRAINT (\w+)$`)
	reAddFK   = regexp.MustCompile(`^ALTER TABLE (\w+) ADD CONSTRAINT (\w+) FOREIGN KEY\s*\((\w+)\) REFERENCES (\w+)\s*\((\w+)\)$`)
	reAddPK   = regexp.MustCompile(`^ALTER TABLE (\w+) ADD CONSTRAINT (\w+) PRIMARY KEY\s*\(([\w, ]*)\)$`)
	reAltType = regexp.MustCompile(`^ALTER TABLE (\w+) ALTER COLUMN (\w+) TYPE\s*(.*)$`)
	reSetDef  = regexp.MustCompile(`^ALTER TABLE (\w+) ALTER COLUMN (\w+) SET DEFAULT (.*)$`)
	reConPK   = regexp.MustCompile(`^CONSTRAINT (\w+) PRIMARY KEY\s*\(([\w, ]*)\)$`)
	reConFK   = regexp.MustCompile(`^CONSTRAINT (\w+) FOREIGN KEY\s*\((\w+)\) REFERENCES (\w+)\s*\((\w+)\)$`)
	reColDef  = regexp.MustCompile(`^(\w+)\s*(.*)$`)
	reComment = regexp.MustCompile(`(?s)/\*.*?\*/`)
)

func normType(t string) (string, bool) {
	t = strings.ToLower(strings.TrimSpace(t))
	t = strings.ReplaceAll(t, " (", "(")
	switch {
	case t == "bigserial":
		return "bigint", true
	case t == "integer", t == "bigint", t == "date":
		return t, true
	case strings.HasPrefix(t, "varchar(") && strings.HasSuffix(t, ")"):
		return t, true
	}
	return t, false
}

// exec interprets one script; err = the script would fail (or is malformed), gap = unknown statement.
func (c *catalog) exec(script string) (stmts int, err string, gap string) {
	script = reComment.ReplaceAllString(script, "")
	for _, raw := range strings.Split(script, ";") {
		st := strings.TrimSpace(raw)
		if st == "" {
			continue
		}
		stmts++
		switch {
		case reCreate.MatchString(st):
			m := reCreate.FindStringSubmatch(st)
			name := m[1]
			if _, dup := c.Tables[name]; dup {
				return stmts, fmt.Sprintf("table %s is created twice", name), ""
			}
			t := &catTable{Cols: map[string]string{}, PK: map[string][]string{}, FK: map[string][3]string{}}
			for _, item := range splitTop(m[2]) {
				item = strings.TrimSpace(item)
				if item == "" {
					continue
				}
				if mm := reConPK.FindStringSubmatch(item); mm != nil {
					t.PK[mm[1]] = splitNames(mm[2])
					continue
				}
				if mm := reConFK.FindStringSubmatch(item); mm != nil {
					rt, ok := c.Tables[mm[3]]
					if !ok {
						return stmts, fmt.Sprintf("table %s references table %s which is not defined yet", name, mm[3]), ""
					}
					if _, ok := rt.Cols[mm[4]]; !ok {
						return stmts, fmt.Sprintf("table %s references %s.%s which does not exist", name, mm[3], mm[4]), ""
					}
					t.FK[mm[1]] = [3]string{mm[2], mm[3], mm[4]}
					continue
				}
				mm := reColDef.FindStringSubmatch(item)
				if mm == nil {
					return stmts, "", "unreadable column definition: " + item
				}
				ty, ok := normType(mm[2])
				if !ok {
					return stmts, fmt.Sprintf("column %s.%s has no valid type (%q)", name, mm[1], mm[2]), ""
				}
				if _, dup := t.Cols[mm[1]]; dup {
					return stmts, fmt.Sprintf("column %s.%s defined twice", name, mm[1]), ""
				}
				t.Cols[mm[1]] = ty
			}
			for _, cols := range t.PK {
				for _, col := range cols {
					if _, ok := t.Cols[col]; !ok {
						return stmts, fmt.Sprintf("primary key of %s names missing column %s", name, col), ""
					}
				}
			}
			for _, fk := range t.FK {
				if _, ok := t.Cols[fk[0]]; !ok {
					return stmts, fmt.Sprintf("foreign key of %s names missing column %s", name, fk[0]), ""
				}
			}
			c.Tables[name] = t
			c.Created[name]++
		case reAddCol.MatchString(st):
			m := reAddCol.FindStringSubmatch(st)
			t := c.Tables[m[1]]
			if t == nil {
				return stmts, "ALTER of unknown table " + m[1], ""
			}
			ty, ok := normType(m[3])
			if !ok {
				return stmts, fmt.Sprintf("ADD COLUMN %s.%s has no valid type (%q)", m[1], m[2], m[3]), ""
			}
			if _, dup := t.Cols[m[2]]; dup {
				return stmts, fmt.Sprintf("ADD COLUMN %s.%s: column exists", m[1], m[2]), ""
			}
			t.Cols[m[2]] = ty
		case reDropCol.MatchString(st):
			m := reDropCol.FindStringSubmatch(st)
			t := c.Tables[m[1]]
			if t == nil {
				return stmts, "ALTER of unknown table " + m[1], ""
			}
			if _, ok := t.Cols[m[2]]; !ok {
				return stmts, fmt.Sprintf("DROP COLUMN %s.%s: no such column", m[1], m[2]), ""
			}
			for on, ot := range c.Tables {
				for _, fk := range ot.FK {
					if on != m[1] && fk[1] == m[1] && fk[2] == m[2] {
						return stmts, fmt.Sprintf("DROP COLUMN %s.%s: still referenced by %s.%s", m[1], m[2], on, fk[0]), ""
					}
				}
			}
			delete(t.Cols, m[2])
			for n, cols := range t.PK {
				for _, col := range cols {
					if col == m[2] {
						delete(t.PK, n)
					}
				}
			}
			for n, fk := range t.FK {
				if fk[0] == m[2] {
					delete(t.FK, n)
				}
			}
		case reDropCon.MatchString(st):
			m := reDropCon.FindStringSubmatch(st)
			t := c.Tables[m[1]]
			if t == nil {
				return stmts, "ALTER of unknown table " + m[1], ""
			}
			_, isPK := t.PK[m[2]]
			_, isFK := t.FK[m[2]]
			if !isPK && !isFK {
				return stmts, fmt.Sprintf("DROP CONSTRAINT %s on %s: no such constraint", m[2], m[1]), ""
			}
			delete(t.PK, m[2])
			delete(t.FK, m[2])
		case reAddFK.MatchString(st):
			m := reAddFK.FindStringSubmatch(st)
			t := c.Tables[m[1]]
			if t == nil {
				return stmts, "ALTER of unknown table " + m[1], ""
			}
			rt := c.Tables[m[4]]
			if rt == nil {
				return stmts, fmt.Sprintf("foreign key %s references unknown table %s", m[2], m[4]), ""
			}
			if _, ok := rt.Cols[m[5]]; !ok {
				return stmts, fmt.Sprintf("foreign key %s references missing column %s.%s", m[2], m[4], m[5]), ""
			}
			if _, ok := t.Cols[m[3]]; !ok {
				return stmts, fmt.Sprintf("foreign key %s on missing column %s.%s", m[2], m[1], m[3]), ""
			}
			if _, dup := t.FK[m[2]]; dup {
				return stmts, fmt.Sprintf("constraint %s already exists", m[2]), ""
			}
			t.FK[m[2]] = [3]string{m[3], m[4], m[5]}
		case reAddPK.MatchString(st):
			m := reAddPK.FindStringSubmatch(st)
			t := c.Tables[m[1]]
			if t == nil {
				return stmts, "ALTER of unknown table " + m[1], ""
			}
			if len(t.PK) > 0 {
				return stmts, fmt.Sprintf("ADD PRIMARY KEY on %s: the table already has a primary key", m[1]), ""
			}
			cols := splitNames(m[3])
			if len(cols) == 0 {
				return stmts, fmt.Sprintf("ADD PRIMARY KEY on %s with no columns", m[1]), ""
			}
			for _, col := range cols {
				if _, ok := t.Cols[col]; !ok {
					return stmts, fmt.Sprintf("ADD PRIMARY KEY on %s names missing column %s", m[1], col), ""
				}
			}
			t.PK[m[2]] = cols
		case reAltType.MatchString(st):
			m := reAltType.FindStringSubmatch(st)
			t := c.Tables[m[1]]
			if t == nil {
				return stmts, "ALTER of unknown table " + m[1], ""
			}
			if _, ok := t.Cols[m[2]]; !ok {
				return stmts, fmt.Sprintf("ALTER COLUMN %s.%s: no such column", m[1], m[2]), ""
			}
			ty, ok := normType(m[3])
			if !ok {
				return stmts, fmt.Sprintf("ALTER COLUMN %s.%s TYPE has no valid type (%q)", m[1], m[2], m[3]), ""
			}
			t.Cols[m[2]] = ty
		case reSetDef.MatchString(st), strings.HasPrefix(st, "CREATE SEQUENCE "), strings.HasPrefix(st, "ALTER SEQUENCE "), strings.HasPrefix(st, "select setval("):
			// sequence plumbing: no effect on columns, types or keys
		default:
			return stmts, "", "unknown statement: " + st
		}
	}
	return stmts, "", ""
}

func splitTop(s string) []string {
	var out []string
	depth, start := 0, 0
	for i, r := range s {
		switch r {
		case '(':
			depth++
		case ')':
			depth--
		case ',':
			if depth == 0 {
				out = append(out, s[start:i])
				start = i + 1
			}
		}
	}
	return append(out, s[start:])
}

func splitNames(s string) []string {
	var out []string
	for _, p := range strings.Split(s, ",") {
		if p = strings.TrimSpace(p); p != "" {
			out = append(out, p)
		}
	}
	return out
}

// describe: comparable description of the tables named in keep.
func (c *catalog) describe(keep map[string]bool) []string {
	var out []string
	for n, t := range c.Tables {
		if keep != nil && !keep[n] {
			continue
		}
		out = append(out, "table "+n)
		for cn, ty := range t.Cols {
			out = append(out, fmt.Sprintf("col %s.%s %s", n, cn, ty))
		}
		var pk []string
		for _, cols := range t.PK {
			pk = append(pk, cols...)
		}
		sort.Strings(pk)
		out = append(out, fmt.Sprintf("pk %s %v", n, pk))
		for _, fk := range t.FK {
			out = append(out, fmt.Sprintf("fk %s.%s -> %s.%s", n, fk[0], fk[1], fk[2]))
		}
	}
	sort.Strings(out)
	return out
}

// expectedDescription: what the schema says, independent of the generator.
func expectedDescription(s dbSchema) []string {
	var out []string
	var colType func(t *dbTable, c *dbCol) string
	colType = func(t *dbTable, c *dbCol) string {
		if c.RefT != "" {
			rt := s.table(c.RefT)
			return colType(rt, rt.col(c.RefC))
		}
		if c.Autoinc {
			return "bigint"
		}
		return map[string]string{"int": "integer", "string": "varchar(50)", "string20": "varchar(20)", "date": "date"}[c.Type]
	}
	for i := range s.Tables {
		t := &s.Tables[i]
		out = append(out, "table "+t.Name)
		var pk []string
		for j := range t.Cols {
			c := &t.Cols[j]
			out = append(out, fmt.Sprintf("col %s.%s %s", t.Name, c.Name, colType(t, c)))
			if c.PK {
				pk = append(pk, c.Name)
			}
			if c.RefT != "" {
				out = append(out, fmt.Sprintf("fk %s.%s -> %s.%s", t.Name, c.Name, c.RefT, c.RefC))
			}
		}
		sort.Strings(pk)
		out = append(out, fmt.Sprintf("pk %s %v", t.Name, pk))
	}
	sort.Strings(out)
	return out
}

func listDiff(want, got []string) string {
	return multisetDiff(want, got)
}

// ---- running the real generators

func compileSchema(files map[string]string, root string) (*sysl.Module, error) {
	m, err, crash := compileFiles(filesCase{Root: root, Files: files}, parseSettingsZero)
	if crash != "" {
		return nil, fmt.Errorf("compile crashed: %s", crash)
	}
	return m, err
}

func genCreate(m *sysl.Module, app string) (out string, crash string) {
	defer func() {
		if r := recover(); r != nil {
			crash = fmt.Sprintf("%v\n%s", r, debug.Stack())
		}
	}()
	lg := logrus.New()
	lg.SetOutput(io.Discard)
	v := database.MakeDatabaseScriptView("t", lg)
	return v.GenerateDatabaseScriptCreate(m.GetApps()[app].GetTypes(), "postgres", app), ""
}

func genDelta(mo, mn *sysl.Module, app string) (out string, crash string) {
	return genDeltaApps(mo, mn, []string{app}, app)
}

func genDeltaApps(mo, mn *sysl.Module, apps []string, app string) (out string, crash string) {
	defer func() {
		if r := recover(); r != nil {
			crash = fmt.Sprintf("%v\n%s", r, debug.Stack())
		}
	}()
	lg := logrus.New()
	lg.SetOutput(io.Discard)
	v := database.MakeDatabaseScriptView("t", lg)
	outs := v.ProcessModSysls(mo.GetApps(), mn.GetApps(), apps, "out", "postgres")
	fs := afero.NewMemMapFs()
	if err := database.GenerateFromSQLMap(outs, fs, lg); err != nil {
		return "", "write: " + err.Error()
	}
	b, _ := afero.ReadFile(fs, "out/"+app+".sql")
	return string(b), ""
}

type c16Case struct {
	Base  dbSchema `json:"base"`
	Depth int      `json:"depth"`
	Files string   `json:"files,omitempty"` // "", "two", "two-same-line"
}

func (c16) Bounds(tier string) map[string]interface{} {
	if tier == "thorough" {
		return map[string]interface{}{"base_tables_depth2_and_chains_every_2nd": 2, "base_tables_depth1": 3, "chains_from_3_table_bases_every": 96}
	}
	return map[string]interface{}{"base_tables": 2, "depth": 1, "depth2_and_chains_from": "every 24th base schema"}
}

type c16Edge struct {
	Old  dbSchema  `json:"old"`
	New  dbSchema  `json:"new"`
	Kind string    `json:"kind"`
	Desc string    `json:"desc"`
	Mid  *dbSchema `json:"mid,omitempty"` // 2-chain: old -> mid -> new
	// Direct: the two edits of the chain applied at once: one delta old -> new (both steps are first checked
	// to be sound on their own, as for chains)
	Direct bool `json:"direct,omitempty"`
}

func (c16) Cases(tier string, emit func(string, interface{})) {
	seenState := map[string]bool{}
	seenEdge := map[string]bool{}
	if tier == "thorough" {
		// base schemas of <= 2 tables: depth 1 for all, depth 2 and all 2-chains from every second one; base
		// schemas of 3 tables to depth 1 with 2-chains from every 96th (3 tables to depth 2 are 9.5 million
		// cases, about 5 hours: measured, not affordable)
		c16Explore(2, 1, 2, 2, seenState, seenEdge, emit)
		c16Explore(3, 1, 0, 96, seenState, seenEdge, emit)
		return
	}
	c16Explore(2, 1, 24, 24, seenState, seenEdge, emit)
}

// c16Explore: BFS from every base schema of at most maxT tables to the given depth (depth 2 from every
// deepEvery-th base schema when deepEvery > 0), 2-chains from every chainEvery-th base schema.
func c16Explore(maxT, depth, deepEvery, chainEvery int, seenState, seenEdge map[string]bool, emit func(string, interface{})) {
	type node struct {
		s     dbSchema
		depth int
	}
	for i, b := range baseSchemas(maxT) {
		d := depth
		if deepEvery > 0 && i%deepEvery == 0 {
			d = 2
		}
		local := map[string]bool{b.canon(): true}
		queue := []node{{b, 0}}
		for len(queue) > 0 {
			n := queue[0]
			queue = queue[1:]
			if !seenState[n.s.canon()] {
				seenState[n.s.canon()] = true
				emit("state", c16Case{Base: n.s})
			}
			if n.depth == d {
				continue
			}
			for _, e := range edits(n.s) {
				k := n.s.canon() + "=>" + e.To.canon()
				if !seenEdge[k] {
					seenEdge[k] = true
					emit("edge", c16Edge{Old: n.s, New: e.To, Kind: e.Kind, Desc: e.Desc})
					// 2-chains v1 -> v2 -> v3 compared with the direct result
					if n.depth == 0 && i%chainEvery == 0 {
						for _, e2 := range edits(e.To) {
							mid := e.To
							emit("chain", c16Edge{Old: n.s, Mid: &mid, New: e2.To, Kind: e.Kind + "+" + e2.Kind, Desc: e.Desc + "; " + e2.Desc})
							if n.s.canon() != e2.To.canon() {
								emit("compound", c16Edge{Old: n.s, Mid: &mid, New: e2.To, Kind: e.Kind + "+" + e2.Kind, Desc: e.Desc + "; " + e2.Desc, Direct: true})
							}
						}
					}
				}
				if !local[e.To.canon()] {
					local[e.To.canon()] = true
					queue = append(queue, node{e.To, n.depth + 1})
				}
			}
		}
	}
	// create script with the tables spread over two files
	for _, b := range baseSchemas(maxT) {
		if len(b.Tables) < 2 {
			continue
		}
		emit("twofiles", c16Case{Base: b, Files: "two"})
		emit("twofiles", c16Case{Base: b, Files: "two-same-line"})
	}
}

func (c16) Run(c core.Case) core.Outcome {
	var cs c16Case
	_ = json.Unmarshal(c.Data, &cs)
	var o core.Outcome
	o.Class = "ok"
	const app = "Db"
	fail := func(sig, msg string) core.Outcome {
		o.Class = "violation"
		o.Violation = msg
		o.Sig = sig
		return o
	}
	checkCreate := func(s dbSchema, files map[string]string, root string) (*sysl.Module, *catalog, *core.Outcome) {
		m, err := compileSchema(files, root)
		if err != nil {
			o.Gap = fmt.Sprintf("schema does not compile: %v\n%v", err, files)
			return nil, nil, &o
		}
		script, crash := genCreate(m, app)
		if crash != "" {
			msg, frame := core.CrashSig("panic: " + crash)
			r := fail("create-crash|"+frame+"|"+msg, fmt.Sprintf("create script generation panicked for\n%v: %s", files, strings.SplitN(crash, "\n", 2)[0]))
			return nil, nil, &r
		}
		cat := newCatalog()
		_, serr, gap := cat.exec(script)
		if gap != "" {
			o.Gap = gap + "\n" + script
			return nil, nil, &o
		}
		if serr != "" {
			kind := "create-fails"
			if strings.Contains(serr, "not defined yet") {
				kind = "create-order"
			} else if strings.Contains(serr, "created twice") {
				kind = "create-table-twice"
			}
			r := fail(kind, fmt.Sprintf("creation script for\n%v is not executable: %s\n%s", files, serr, script))
			return nil, nil, &r
		}
		if d := listDiff(expectedDescription(s), cat.describe(nil)); d != "" {
			kind := "create-differs|" + firstWord(d)
			r := fail(kind, fmt.Sprintf("creation script for\n%v does not define the schema: %s\n%s", files, d, script))
			return nil, nil, &r
		}
		return m, cat, nil
	}
	if cs.Files != "" {
		// tables alternate between two files; "two-same-line": both files start their first table on the same line
		var a, b strings.Builder
		a.WriteString("import f2\n" + app + ":\n")
		if cs.Files == "two-same-line" {
			b.WriteString("# pad\n" + app + ":\n")
		} else {
			b.WriteString("# pad\n# pad\n# pad\n" + app + ":\n")
		}
		for i, t := range cs.Base.Tables {
			if i%2 == 0 {
				a.WriteString(renderTable(t))
			} else {
				b.WriteString(renderTable(t))
			}
		}
		_, _, bad := checkCreate(cs.Base, map[string]string{"r.sysl": a.String(), "f2.sysl": b.String()}, "r.sysl")
		if bad != nil {
			if bad.Sig != "" {
				bad.Sig = cs.Files + "|" + bad.Sig
			}
			return *bad
		}
		o.States = 1
		o.Transitions = 1
		o.Traces = 1
		o.NonTrivial = cs.Files + cs.Base.canon()
		return o
	}
	get := func(s dbSchema) (*sysl.Module, *catalog, *core.Outcome) {
		return checkCreate(s, map[string]string{"r.sysl": s.render(app)}, "r.sysl")
	}
	if c.Kind == "state" {
		m, _, bad := get(cs.Base)
		if bad != nil {
			return *bad
		}
		o.States = 1
		script, crash := genDelta(m, m, app)
		if crash != "" {
			return fail("delta-crash|identity", "delta between identical versions panicked: "+strings.SplitN(crash, "\n", 2)[0])
		}
		cat := newCatalog()
		if stmts, _, _ := cat.exec(script); stmts != 0 {
			return fail("identity-delta-not-empty", fmt.Sprintf("the delta between identical versions of\n%s contains statements:\n%s", cs.Base.render(app), script))
		}
		o.NonTrivial = "state|" + cs.Base.canon()
		return o
	}
	var e c16Edge
	_ = json.Unmarshal(c.Data, &e)
	oldM, _, bad := get(e.Old)
	if bad != nil {
		o.Class = "state-problem"
		return o // reported by the state case
	}
	newM, newCat, bad := get(e.New)
	if bad != nil {
		o.Class = "state-problem"
		return o
	}
	o.Transitions = 1
	o.Traces = 1
	desc := fmt.Sprintf("old:\n%snew (%s):\n%s", e.Old.render(app), e.Desc, e.New.render(app))
	steps := [][2]*sysl.Module{{oldM, newM}}
	if e.Mid != nil {
		midM, _, bad := get(*e.Mid)
		if bad != nil {
			o.Class = "state-problem"
			return o
		}
		steps = [][2]*sysl.Module{{oldM, midM}, {midM, newM}}
		desc = fmt.Sprintf("v1:\n%sv2:\n%sv3 (%s):\n%s", e.Old.render(app), e.Mid.render(app), e.Desc, e.New.render(app))
	}
	if e.Mid != nil {
		// a chain adds information only where each step is sound on its own (the single edges are
		// separate cases): it then exposes state that the delta leaves behind differently from a
		// fresh creation (constraint names, left-over constraints)
		for _, st := range steps {
			c1 := newCatalog()
			sc, _ := genCreate(st[0], app)
			c1.exec(sc)
			d1, crash := genDelta(st[0], st[1], app)
			if crash != "" {
				o.Class = "chain-skipped:step-fails"
				return o
			}
			if _, serr, _ := c1.exec(d1); serr != "" {
				o.Class = "chain-skipped:step-fails"
				return o
			}
			c2 := newCatalog()
			sc2, _ := genCreate(st[1], app)
			c2.exec(sc2)
			keep := map[string]bool{}
			for n := range c2.Tables {
				keep[n] = true
			}
			if listDiff(c2.describe(nil), c1.describe(keep)) != "" {
				o.Class = "chain-skipped:step-fails"
				return o
			}
		}
	}
	if e.Direct {
		steps = [][2]*sysl.Module{{oldM, newM}}
		desc = fmt.Sprintf("old:\n%snew (two edits at once: %s):\n%s", e.Old.render(app), e.Desc, e.New.render(app))
	}
	cat := newCatalog()
	oldScript, _ := genCreate(oldM, app)
	cat.exec(oldScript)
	total := 0
	var scripts []string
	for _, st := range steps {
		script, crash := genDelta(st[0], st[1], app)
		scripts = append(scripts, script)
		if crash != "" {
			msg, frame := core.CrashSig("panic: " + crash)
			return fail("delta-crash|"+e.Kind+"|"+frame+"|"+msg, desc+"delta generation panicked: "+strings.SplitN(crash, "\n", 2)[0])
		}
		stmts, serr, gap := cat.exec(script)
		total += stmts
		if gap != "" {
			o.Gap = gap + "\n" + script
			return o
		}
		if serr != "" {
			if e.Direct && strings.Contains(serr, "still referenced by") {
				return fail("delta-fails|compound:referenced-column-dropped-before-its-reference", fmt.Sprintf("%sone delta that removes a reference and the key column it pointed to drops the key column first (tables are processed in dependency order, referenced table first): %s\n%s", desc, serr, script))
			}
			if e.Mid != nil && strings.Contains(e.Kind, "drop-table") && strings.Contains(serr, "still referenced by") {
				return fail("delta-fails|chain:dropped-table-left-behind", fmt.Sprintf("%sa table dropped in an earlier version is never dropped by the delta, so a later delta fails: %s\n%s", desc, serr, script))
			}
			return fail("delta-fails|"+e.Kind+"|"+core.MaskMsg(firstWords(serr, 4)), fmt.Sprintf("%sdelta script is not executable after the old creation script: %s\n%s", desc, serr, script))
		}
	}
	keep := map[string]bool{}
	for _, t := range e.New.Tables {
		keep[t.Name] = true
	}
	if d := listDiff(newCat.describe(nil), cat.describe(keep)); d != "" {
		kind := e.Kind
		if strings.Contains(d, "bigint") && strings.Contains(d, "integer") && (strings.Contains(kind, "add-fk-column") || strings.Contains(kind, "add-table-fk") || strings.Contains(kind, "add-reference")) {
			kind = "new-reference-to-retained-autoinc"
		}
		if e.Mid != nil {
			kind = "chain:" + kind
		}
		if e.Direct {
			kind = "compound:" + e.Kind
			if e.Kind == "drop-reference+add-reference" {
				kind = "retarget-reference" // the two edits at once are exactly the single retarget edit (recorded finding)
			}
		}
		tail := "|" + firstWord(d)
		if strings.Contains(kind, "retarget-reference") {
			tail = ""
		}
		return fail("delta-differs|"+kind+tail, fmt.Sprintf("%sold creation script + delta leaves a different schema than the new creation script: %s\ndelta:\n%s", desc, d, strings.Join(scripts, "\n-- next delta --\n")))
	}
	// one generator run over two applications: a second application Aux that undergoes the reverse edit is
	// processed before Db by the same view object; Db's delta must be byte-identical to the one made alone
	if e.Mid == nil && len(scripts) == 1 && len(core.Hash(desc)) > 0 && core.Hash(desc)[0]%3 == 0 {
		auxOld, err1 := compileSchema(map[string]string{"x.sysl": e.New.render("Aux")}, "x.sysl")
		auxNew, err2 := compileSchema(map[string]string{"x.sysl": e.Old.render("Aux")}, "x.sysl")
		if err1 == nil && err2 == nil {
			mo := &sysl.Module{Apps: map[string]*sysl.Application{app: oldM.GetApps()[app], "Aux": auxOld.GetApps()["Aux"]}}
			mn := &sysl.Module{Apps: map[string]*sysl.Application{app: newM.GetApps()[app], "Aux": auxNew.GetApps()["Aux"]}}
			both, crash := genDeltaApps(mo, mn, []string{"Aux", app}, app)
			if crash == "" && both != scripts[0] {
				return fail("delta-two-apps-differs", fmt.Sprintf("%sthe delta for %s generated in one run after application Aux (which undergoes the reverse edit) differs from the delta generated alone: %s", desc, app, firstDiff(scripts[0], both)))
			}
			o.Traces++
		}
	}
	if total > 0 {
		o.NonTrivial = core.Hash(desc)
	}
	return o
}

func firstWord(diff string) string {
	for _, tag := range []string{"missing [\"", "extra [\""} {
		if i := strings.Index(diff, tag); i >= 0 {
			f := strings.Fields(diff[i+len(tag):])
			if len(f) > 0 {
				return strings.SplitN(tag, " ", 2)[0] + "-" + f[0]
			}
		}
	}
	return "?"
}

func firstWords(s string, n int) string {
	f := strings.Fields(s)
	if len(f) > n {
		f = f[:n]
	}
	return strings.Join(f, " ")
}
