package props

// C10 — view evaluation follows the expression semantics and is pure.
// A typed expression grammar is enumerated completely to a depth bound; every expression is
// rendered into a view, evaluated by the real eval.EvaluateView and compared with a reference
// interpreter (value semantics: every operation copies). Let-sequences and scope-variable
// shadowing probe purity: every binding is read again at the end and must still hold its value.

import (
	"encoding/json"
	"fmt"
	"io"
	"os"
	"sort"
	"strings"
	"time"

	"github.com/sirupsen/logrus"

	"github.com/anz-bank/sysl/pkg/eval"
	"github.com/anz-bank/sysl/pkg/parse"
	"github.com/anz-bank/sysl/pkg/sysl"
	"verif/engine/core"
)

type c10 struct{}

func init() { core.Register(c10{}) }

func (c10) ID() string    { return "C10" }
func (c10) Level() string { return "exploration" }
func (c10) Rule() string {
	return "E1: all well-typed expressions of depth <=2 over the supported operator table (integer arithmetic/comparison, string concatenation/equality, boolean and/equality, conditionals, set union, list concatenation, membership, count, where, flatten) and a literal pool, packed 30 per view; E2: all let-sequences of length <=3 (thorough 4) whose right-hand sides are depth-1 expressions over the pool and ALL earlier names, each bound name read back at the end; E3: where / flatten / transform whose scope variable shadows an outer binding, outer binding read afterwards; E4: nested transforms over lists, sets and maps with result types set/sequence/scalar and calls to other views; E5: argument tuples. Non-trivial = view with at least one output whose reference value is not a literal of the pool; distinct by view text"
}
func (c10) Assumptions() []string {
	return []string{
		"only operator/operand-kind combinations present in the evaluator's own dispatch tables are generated (e.g. 'where' on a list of integers is not supported by the language implementation and is not generated); ill-typed expressions and division by zero are outside the property",
		"sets are compared as unordered collections; a set literal with duplicate elements is not generated",
		"evaluation failure is os.Exit(1) inside the library and is observed as worker death",
	}
}
func (c10) CaseTimeout() time.Duration { return 120 * time.Second }
func (c10) InitWorker()                { logrus.SetOutput(io.Discard) }

// ---- reference values

type rv struct {
	K string // int, str, bool, null, list, set, map
	I int64
	S string
	B bool
	L []rv
	M map[string]rv
}

func rInt(i int64) rv         { return rv{K: "int", I: i} }
func rStr(s string) rv        { return rv{K: "str", S: s} }
func rBool(b bool) rv         { return rv{K: "bool", B: b} }
func rList(l ...rv) rv        { return rv{K: "list", L: append([]rv{}, l...)} }
func rSet(l ...rv) rv         { return rv{K: "set", L: append([]rv{}, l...)} }
func rMap(m map[string]rv) rv { return rv{K: "map", M: m} }

func (v rv) canon() string {
	switch v.K {
	case "int":
		return fmt.Sprint(v.I)
	case "str":
		return fmt.Sprintf("%q", v.S)
	case "bool":
		return fmt.Sprint(v.B)
	case "null":
		return "null"
	case "list":
		var p []string
		for _, e := range v.L {
			p = append(p, e.canon())
		}
		return "[" + strings.Join(p, ",") + "]"
	case "set":
		var p []string
		for _, e := range v.L {
			p = append(p, e.canon())
		}
		sort.Strings(p)
		return "{" + strings.Join(p, ",") + "}"
	case "map":
		var ks []string
		for k := range v.M {
			ks = append(ks, k)
		}
		sort.Strings(ks)
		var p []string
		for _, k := range ks {
			p = append(p, k+":"+v.M[k].canon())
		}
		return "(" + strings.Join(p, ",") + ")"
	}
	return "?" + v.K
}

func valueCanonical(v *sysl.Value) string {
	if v == nil {
		return "nil"
	}
	switch x := v.GetValue().(type) {
	case *sysl.Value_I:
		return fmt.Sprint(x.I)
	case *sysl.Value_S:
		return fmt.Sprintf("%q", x.S)
	case *sysl.Value_B:
		return fmt.Sprint(x.B)
	case *sysl.Value_Null_:
		return "null"
	case *sysl.Value_List_:
		var p []string
		for _, e := range x.List.GetValue() {
			p = append(p, valueCanonical(e))
		}
		return "[" + strings.Join(p, ",") + "]"
	case *sysl.Value_Set:
		var p []string
		for _, e := range x.Set.GetValue() {
			p = append(p, valueCanonical(e))
		}
		sort.Strings(p)
		return "{" + strings.Join(p, ",") + "}"
	case *sysl.Value_Map_:
		var ks []string
		for k := range x.Map.GetItems() {
			ks = append(ks, k)
		}
		sort.Strings(ks)
		var p []string
		for _, k := range ks {
			p = append(p, k+":"+valueCanonical(x.Map.GetItems()[k]))
		}
		return "(" + strings.Join(p, ",") + ")"
	}
	return fmt.Sprintf("?%T", v.GetValue())
}

// ---- expressions

type ex struct {
	T    string // type: I S B LI LS SI SS LLI LSI SSI
	Src  string
	Eval func(env map[string]rv) (rv, bool)
	D    int
}

func lit(t, src string, v rv) ex {
	return ex{T: t, Src: src, Eval: func(map[string]rv) (rv, bool) { return v, true }}
}

func nameRef(t, n string) ex {
	return ex{T: t, Src: n, Eval: func(env map[string]rv) (rv, bool) { v, ok := env[n]; return v, ok }}
}

var c10Pool = []ex{
	lit("I", "0", rInt(0)), lit("I", "1", rInt(1)), lit("I", "2", rInt(2)), lit("I", "3", rInt(3)),
	lit("S", `""`, rStr("")), lit("S", `"a"`, rStr("a")), lit("S", `"b"`, rStr("b")),
	lit("B", "true", rBool(true)), lit("B", "false", rBool(false)),
	lit("LI", "[1, 2, 3]", rList(rInt(1), rInt(2), rInt(3))), lit("LI", "[2]", rList(rInt(2))),
	lit("LS", `["a", "b"]`, rList(rStr("a"), rStr("b"))),
	lit("SI", "{1, 2}", rSet(rInt(1), rInt(2))), lit("SI", "{2, 3}", rSet(rInt(2), rInt(3))),
	lit("SS", `{"a"}`, rSet(rStr("a"))), lit("SS", `{"a", "b"}`, rSet(rStr("a"), rStr("b"))),
	lit("LLI", "[[1, 2], [3]]", rList(rList(rInt(1), rInt(2)), rList(rInt(3)))),
	lit("LSI", "[{1, 2}, {3}]", rList(rSet(rInt(1), rInt(2)), rSet(rInt(3)))),
	lit("SSI", "{{1, 2}, {3}}", rSet(rSet(rInt(1), rInt(2)), rSet(rInt(3)))),
}

func bin(t, op string, a, b ex, f func(x, y rv) (rv, bool)) ex {
	return ex{T: t, Src: "(" + a.Src + ") " + op + " (" + b.Src + ")", D: maxInt(a.D, b.D) + 1, Eval: func(env map[string]rv) (rv, bool) {
		x, ok := a.Eval(env)
		if !ok {
			return rv{}, false
		}
		y, ok := b.Eval(env)
		if !ok {
			return rv{}, false
		}
		return f(x, y)
	}}
}

func maxInt(a, b int) int {
	if a > b {
		return a
	}
	return b
}

func dedup(l []rv) []rv {
	seen := map[string]bool{}
	var out []rv
	for _, e := range l {
		if !seen[e.canon()] {
			seen[e.canon()] = true
			out = append(out, e)
		}
	}
	return out
}

// ops: all expressions built from one operator applied to operands drawn from `from`.
func ops(from []ex) []ex {
	var out []ex
	by := map[string][]ex{}
	for _, e := range from {
		by[e.T] = append(by[e.T], e)
	}
	for _, a := range by["I"] {
		for _, b := range by["I"] {
			out = append(out,
				bin("I", "+", a, b, func(x, y rv) (rv, bool) { return rInt(x.I + y.I), true }),
				bin("I", "-", a, b, func(x, y rv) (rv, bool) { return rInt(x.I - y.I), true }),
				bin("I", "*", a, b, func(x, y rv) (rv, bool) { return rInt(x.I * y.I), true }),
				bin("I", "/", a, b, func(x, y rv) (rv, bool) {
					if y.I == 0 {
						return rv{}, false
					}
					return rInt(x.I / y.I), true
				}),
				bin("I", "%", a, b, func(x, y rv) (rv, bool) {
					if y.I == 0 {
						return rv{}, false
					}
					return rInt(x.I % y.I), true
				}),
				bin("B", "==", a, b, func(x, y rv) (rv, bool) { return rBool(x.I == y.I), true }),
				bin("B", "!=", a, b, func(x, y rv) (rv, bool) { return rBool(x.I != y.I), true }),
				bin("B", ">", a, b, func(x, y rv) (rv, bool) { return rBool(x.I > y.I), true }),
				bin("B", "<", a, b, func(x, y rv) (rv, bool) { return rBool(x.I < y.I), true }),
				bin("B", ">=", a, b, func(x, y rv) (rv, bool) { return rBool(x.I >= y.I), true }),
				bin("B", "<=", a, b, func(x, y rv) (rv, bool) { return rBool(x.I <= y.I), true }),
			)
		}
	}
	for _, a := range by["S"] {
		for _, b := range by["S"] {
			out = append(out,
				bin("S", "+", a, b, func(x, y rv) (rv, bool) { return rStr(x.S + y.S), true }),
				bin("B", "==", a, b, func(x, y rv) (rv, bool) { return rBool(x.S == y.S), true }),
				bin("B", "!=", a, b, func(x, y rv) (rv, bool) { return rBool(x.S != y.S), true }),
			)
		}
		for _, t := range []string{"LS", "SS"} {
			for _, b := range by[t] {
				in := func(x, y rv) bool {
					for _, e := range y.L {
						if e.S == x.S {
							return true
						}
					}
					return false
				}
				out = append(out,
					bin("B", "in", a, b, func(x, y rv) (rv, bool) { return rBool(in(x, y)), true }),
					bin("B", "!in", a, b, func(x, y rv) (rv, bool) { return rBool(!in(x, y)), true }),
				)
			}
		}
	}
	for _, a := range by["B"] {
		for _, b := range by["B"] {
			out = append(out,
				bin("B", "&&", a, b, func(x, y rv) (rv, bool) { return rBool(x.B && y.B), true }),
				bin("B", "==", a, b, func(x, y rv) (rv, bool) { return rBool(x.B == y.B), true }),
			)
		}
		// conditionals
		for _, t := range []string{"I", "S"} {
			ts := by[t]
			for i := 0; i+1 < len(ts); i += 2 {
				x, y := ts[i], ts[i+1]
				c := a
				out = append(out, ex{T: t, Src: "if " + c.Src + " then " + x.Src + " else " + y.Src, D: maxInt(c.D, maxInt(x.D, y.D)) + 1, Eval: func(env map[string]rv) (rv, bool) {
					cv, ok := c.Eval(env)
					if !ok {
						return rv{}, false
					}
					if cv.B {
						return x.Eval(env)
					}
					return y.Eval(env)
				}})
			}
		}
	}
	union := func(x, y rv) (rv, bool) { return rv{K: "set", L: dedup(append(append([]rv{}, x.L...), y.L...))}, true }
	concat := func(x, y rv) (rv, bool) { return rv{K: "list", L: append(append([]rv{}, x.L...), y.L...)}, true }
	for _, t := range []string{"SI", "SS"} {
		for _, a := range by[t] {
			for _, b := range by[t] {
				out = append(out, bin(t, "|", a, b, union))
			}
		}
	}
	for _, t := range []string{"LI", "LS"} {
		for _, a := range by[t] {
			for _, b := range by[t] {
				out = append(out, bin(t, "|", a, b, concat))
			}
		}
	}
	for _, a := range by["LI"] {
		for _, b := range by["SI"] {
			out = append(out, bin("LI", "|", a, b, func(x, y rv) (rv, bool) {
				// list | set appends the set's elements in the set's own order: only defined up to that order
				// for single-element sets
				if len(y.L) != 1 {
					return rv{}, false
				}
				return concat(x, y)
			}))
		}
	}
	// count
	for _, t := range []string{"LI", "LS", "SI", "SS", "LLI"} {
		for _, a := range by[t] {
			a := a
			out = append(out, ex{T: "I", Src: "(" + a.Src + ") count", D: a.D + 1, Eval: func(env map[string]rv) (rv, bool) {
				v, ok := a.Eval(env)
				return rInt(int64(len(v.L))), ok
			}})
		}
	}
	// where (supported: sets of int / string, lists of string)
	for _, a := range by["SI"] {
		for _, b := range by["I"] {
			a, b := a, b
			if b.D > 0 {
				continue
			}
			out = append(out, ex{T: "SI", Src: "(" + a.Src + ") where(. > " + b.Src + ")", D: a.D + 1, Eval: func(env map[string]rv) (rv, bool) {
				v, ok := a.Eval(env)
				w, ok2 := b.Eval(env)
				var r []rv
				for _, e := range v.L {
					if e.I > w.I {
						r = append(r, e)
					}
				}
				return rv{K: "set", L: r}, ok && ok2
			}})
		}
	}
	for _, t := range []string{"SS", "LS"} {
		for _, a := range by[t] {
			for _, b := range by["S"] {
				a, b, t := a, b, t
				if b.D > 0 {
					continue
				}
				out = append(out, ex{T: t, Src: "(" + a.Src + ") where(. == " + b.Src + ")", D: a.D + 1, Eval: func(env map[string]rv) (rv, bool) {
					v, ok := a.Eval(env)
					w, ok2 := b.Eval(env)
					var r []rv
					for _, e := range v.L {
						if e.S == w.S {
							r = append(r, e)
						}
					}
					k := "set"
					if t == "LS" {
						k = "list"
					}
					return rv{K: k, L: r}, ok && ok2
				}})
			}
		}
	}
	// flatten
	for _, t := range []string{"LLI", "LSI", "SSI"} {
		for _, a := range by[t] {
			for _, b := range by["I"] {
				a, b, t := a, b, t
				if b.D > 0 {
					continue
				}
				rt := "LI"
				if t == "SSI" {
					rt = "SI"
				}
				out = append(out, ex{T: rt, Src: "(" + a.Src + ") flatten(. + " + b.Src + ")", D: a.D + 1, Eval: func(env map[string]rv) (rv, bool) {
					v, ok := a.Eval(env)
					w, ok2 := b.Eval(env)
					var r []rv
					for _, l := range v.L {
						if l.K == "set" && len(l.L) > 1 && t != "SSI" {
							return rv{}, false // order of a set's elements inside a list result is not defined
						}
						for _, e := range l.L {
							r = append(r, rInt(e.I+w.I))
						}
					}
					if t == "SSI" {
						// the implementation does not de-duplicate here; compare as a set without duplicates only
						// when no duplicates arise
						if len(dedup(r)) != len(r) {
							return rv{}, false
						}
						return rv{K: "set", L: r}, ok && ok2
					}
					return rv{K: "list", L: r}, ok && ok2
				}})
			}
		}
	}
	return out
}

// ---- views

type c10View struct {
	Label string   `json:"label"`
	Src   string   `json:"src"`  // full sysl source
	Outs  []string `json:"outs"` // output names in order
	Want  []string `json:"want"` // canonical expected values
	Args  []string `json:"args"` // argument values (p: int, q: string)
	NonT  bool     `json:"nont"`
}

func mkView(label string, lines []string, outs []string, want []string, nont bool) c10View {
	var b strings.Builder
	b.WriteString("TransformApp:\n  !view helper(n <: int) -> int:\n    n -> (:\n      out = n + 1\n      twice = n * 2\n    )\n")
	// recursive views: a call to the view itself sits inside an operand of each comparison / arithmetic /
	// boolean operator, so the same expression node is evaluated while an evaluation of it is in progress
	b.WriteString("  !view recNe(n <: int) -> int:\n    n -> (:\n      out = if n == 0 then false else recNe(n - 1).out != true\n    )\n")
	b.WriteString("  !view recEq(n <: int) -> int:\n    n -> (:\n      out = if n == 0 then true else recEq(n - 1).out == false\n    )\n")
	b.WriteString("  !view recSum(n <: int) -> int:\n    n -> (:\n      out = if n == 0 then 0 else n + recSum(n - 1).out\n    )\n")
	b.WriteString("  !view recAnd(n <: int) -> int:\n    n -> (:\n      out = if n == 0 then true else (n > 0) && recAnd(n - 1).out\n    )\n")
	b.WriteString("  !view recGt(n <: int) -> int:\n    n -> (:\n      out = if n == 0 then 0 else if recGt(n - 1).out > 1 then 0 else recGt(n - 1).out + 1\n    )\n")
	b.WriteString("  !view main(p <: int, q <: string) -> int:\n    p -> (:\n")
	for _, l := range lines {
		b.WriteString("      " + l + "\n")
	}
	b.WriteString("    )\n")
	return c10View{Label: label, Src: b.String(), Outs: outs, Want: want, NonT: nont}
}

func c10Env() map[string]rv { return map[string]rv{"p": rInt(2), "q": rStr("a")} }

func c10Views(tier string) []c10View {
	var views []c10View
	full := tier == "thorough"
	pool := append(append([]ex{}, c10Pool...), nameRef("I", "p"), nameRef("S", "q"))
	d1 := ops(pool)
	// E1: depth 1 and depth 2
	var d2 []ex
	{
		// depth-2: operators over (pool subset + depth-1 results); bounded by taking, per type, every depth-1
		// expression as one operand and pool atoms as the other (both orders arise through the enumeration)
		perType := map[string][]ex{}
		for _, e := range d1 {
			perType[e.T] = append(perType[e.T], e)
		}
		small := []ex{pool[1], pool[2], pool[5], pool[6], pool[7], pool[8], pool[9], pool[11], pool[12], pool[13], pool[14], pool[15], pool[16]}
		step := 1
		if !full {
			step = 2
		}
		for t, es := range perType {
			_ = t
			for i := 0; i < len(es); i += step {
				for _, e := range ops(append(append([]ex{}, small...), es[i])) {
					if e.D == 2 {
						d2 = append(d2, e)
					}
				}
			}
		}
	}
	pack := func(label string, es []ex, size int) {
		env := c10Env()
		var lines, outs, want []string
		nont := false
		flush := func() {
			if len(outs) > 0 {
				views = append(views, mkView(fmt.Sprintf("%s/%d", label, len(views)), lines, outs, want, nont))
			}
			lines, outs, want, nont = nil, nil, nil, false
		}
		for _, e := range es {
			v, ok := e.Eval(env)
			if !ok {
				continue
			}
			n := fmt.Sprintf("o%d", len(outs))
			lines = append(lines, n+" = "+e.Src)
			outs = append(outs, n)
			want = append(want, v.canon())
			nont = nont || e.D > 0
			if len(outs) == size {
				flush()
			}
		}
		flush()
	}
	pack("E1/d1", d1, 30)
	pack("E1/d2", d2, 30)

	// E2: let-sequences
	maxLen := 3
	if full {
		maxLen = 4
	}
	var rec func(names []string, types []string, lines []string, env map[string]rv, depth int)
	letCount := 0
	rec = func(names, types, lines []string, env map[string]rv, depth int) {
		if depth > 0 {
			// read every binding back (purity probe) and use each once more in an expression
			var outs, want []string
			ls := append([]string{}, lines...)
			for i, n := range names {
				o := fmt.Sprintf("r%d", i)
				ls = append(ls, o+" = "+n)
				outs = append(outs, o)
				want = append(want, env[n].canon())
			}
			views = append(views, mkView(fmt.Sprintf("E2/%d", letCount), ls, outs, want, true))
			letCount++
		}
		if depth == maxLen {
			return
		}
		atoms := []ex{pool[9], pool[11], pool[12], pool[1], pool[5]} // [1,2,3] ["a","b"] {1,2} 1 "a"
		if depth > 0 {
			atoms = []ex{pool[10], lit("LI", "[3]", rList(rInt(3))), pool[13], pool[2]} // [2] [3] {2,3} 2
		}
		for i, n := range names {
			atoms = append(atoms, nameRef(types[i], n))
		}
		var cands []ex
		if depth == 0 {
			cands = []ex{pool[9], pool[11], pool[12], pool[1]}
		} else {
			for _, e := range ops(atoms) {
				// right-hand sides that use at least one earlier name and build a collection or number
				if strings.Contains(e.Src, "(v") && (e.T == "LI" || e.T == "LS" || e.T == "SI" || e.T == "I") && !strings.Contains(e.Src, "where") && !strings.Contains(e.Src, "count") {
					cands = append(cands, e)
				}
			}
		}
		for _, e := range cands {
			v, ok := e.Eval(env)
			if !ok {
				continue
			}
			n := fmt.Sprintf("v%d", depth)
			env2 := map[string]rv{}
			for k, x := range env {
				env2[k] = x
			}
			env2[n] = v
			rec(append(append([]string{}, names...), n), append(append([]string{}, types...), e.T), append(append([]string{}, lines...), "let "+n+" = "+e.Src), env2, depth+1)
		}
	}
	rec(nil, nil, nil, c10Env(), 0)

	// E3: scope-variable shadowing
	type shadow struct{ lines, outs, want []string }
	for i, s := range []shadow{
		{[]string{"let x = 5", `o0 = {1, 2, 3} where(x: x > 1)`, "o1 = x"}, []string{"o0", "o1"}, []string{"{2,3}", "5"}},
		{[]string{"let x = 5", `o0 = [[1, 2], [3]] flatten(x: x + 1)`, "o1 = x"}, []string{"o0", "o1"}, []string{"[2,3,4]", "5"}},
		{[]string{`let x = "keep"`, "o0 = [1, 2] -> <sequence of int> (x:", "  out = x + 1", ")", "o1 = x"}, []string{"o0", "o1"}, []string{"[(out:2),(out:3)]", `"keep"`}},
		{[]string{`let x = "keep"`, "o0 = {1, 2} -> <set of int> (x:", "  out = 7", ")", "o1 = x"}, []string{"o0", "o1"}, []string{"{(out:7)}", `"keep"`}},
		{[]string{"let y = 9", "o0 = [1, 2] -> <sequence of int> (x:", "  let y = x", "  out = y", ")", "o1 = y"}, []string{"o0", "o1"}, []string{"[(out:1),(out:2)]", "9"}},
		{[]string{"let s = {1, 2}", "let t = s | {3}", "o0 = s", "o1 = t", "o2 = s count"}, []string{"o0", "o1", "o2"}, []string{"{1,2}", "{1,2,3}", "2"}},
		{[]string{"let a = [1, 2, 3]", "let b = a | [4]", "let c = a | [5]", "o0 = a", "o1 = b", "o2 = c"}, []string{"o0", "o1", "o2"}, []string{"[1,2,3]", "[1,2,3,4]", "[1,2,3,5]"}},
		{[]string{"o0 = helper(p).out", "o1 = helper(helper(p).out).twice", "o2 = p"}, []string{"o0", "o1", "o2"}, []string{"3", "6", "2"}},
		{[]string{"let n = 40", "o0 = helper(1).out", "o1 = n"}, []string{"o0", "o1"}, []string{"2", "40"}},
	} {
		views = append(views, mkView(fmt.Sprintf("E3/%d", i), s.lines, s.outs, s.want, true))
	}
	// E6: purity probes. A collection of four elements is bound once; every operator that consumes it
	// (union / concatenation on either side, membership, count, where with each element as the kept one,
	// where(. > k), flatten) is applied, then the bound name is read back, the operator applied again and
	// the name read back again. The operand must not have been rewritten by the first application.
	{
		bound := []ex{
			lit("SI", "{1, 2, 3, 4}", rSet(rInt(1), rInt(2), rInt(3), rInt(4))),
			lit("SS", `{"a", "b", "c", "d"}`, rSet(rStr("a"), rStr("b"), rStr("c"), rStr("d"))),
			lit("LS", `["x", "b", "y", "a"]`, rList(rStr("x"), rStr("b"), rStr("y"), rStr("a"))),
			lit("LI", "[4, 1, 3, 2]", rList(rInt(4), rInt(1), rInt(3), rInt(2))),
			lit("LLI", "[[1, 2], [3], [4, 5]]", rList(rList(rInt(1), rInt(2)), rList(rInt(3)), rList(rInt(4), rInt(5)))),
			lit("SSI", "{{1, 2}, {3}, {4, 5}}", rSet(rSet(rInt(1), rInt(2)), rSet(rInt(3)), rSet(rInt(4), rInt(5)))),
		}
		small := []ex{pool[1], pool[2], pool[3], lit("I", "4", rInt(4)), pool[5], pool[6], lit("S", `"x"`, rStr("x")), lit("S", `"y"`, rStr("y")), lit("S", `"c"`, rStr("c")),
			pool[10], pool[13], pool[11], pool[14]}
		n := 0
		for _, b := range bound {
			env := c10Env()
			v, _ := b.Eval(env)
			env["v1"] = v
			for _, e := range ops(append(append([]ex{}, small...), nameRef(b.T, "v1"))) {
				if !strings.Contains(e.Src, "(v1)") {
					continue
				}
				r, ok := e.Eval(env)
				if !ok {
					continue
				}
				views = append(views, mkView(fmt.Sprintf("E6/%d", n), []string{"let v1 = " + b.Src, "o0 = " + e.Src, "o1 = v1", "o2 = " + e.Src, "o3 = v1"},
					[]string{"o0", "o1", "o2", "o3"}, []string{r.canon(), v.canon(), r.canon(), v.canon()}, true))
				n++
			}
		}
	}
	// E7: recursion depth 0..4 through each operator
	{
		type rc struct {
			view string
			want []string
		}
		for i, r := range []rc{
			{"recNe", []string{"false", "true", "false", "true", "false"}},
			{"recEq", []string{"true", "false", "true", "false", "true"}},
			{"recSum", []string{"0", "1", "3", "6", "10"}},
			{"recAnd", []string{"true", "true", "true", "true", "true"}},
			{"recGt", []string{"0", "1", "2", "0", "1"}},
		} {
			var lines, outs []string
			for n := 0; n <= 4; n++ {
				lines = append(lines, fmt.Sprintf("o%d = %s(%d).out", n, r.view, n))
				outs = append(outs, fmt.Sprintf("o%d", n))
			}
			views = append(views, mkView(fmt.Sprintf("E7/%d", i), lines, outs, r.want, true))
		}
	}
	// E8: unions and concatenations with an operand that evaluates to the empty collection (there is no literal
	// for it: it comes from a filter that matches nothing), the other operand written with duplicates / unsorted
	for i, sh := range []shadow{
		{[]string{`let e = {1, 2} where(. > 5)`, `o0 = e | {3, 1, 3}`, `o1 = {3, 1, 3} | e`, `o2 = (e | {3, 1, 3}) count`, `o3 = e | e`, `o4 = e count`},
			[]string{"o0", "o1", "o2", "o3", "o4"}, []string{"{1,3}", "{1,3}", "2", "{}", "0"}},
		{[]string{`let e = {"a", "b"} where(. == "zz")`, `o0 = e | {"b", "a", "b"}`, `o1 = {"b", "a", "b"} | e`, `o2 = (e | {"b", "a", "b"}) count`},
			[]string{"o0", "o1", "o2"}, []string{`{"a","b"}`, `{"a","b"}`, "2"}},
		{[]string{`let e = ["x", "y"] where(. == "zz")`, `o0 = e | ["b", "a", "b"]`, `o1 = ["b", "a", "b"] | e`, `o2 = (e | ["b", "a", "b"]) count`},
			[]string{"o0", "o1", "o2"}, []string{`["b","a","b"]`, `["b","a","b"]`, "3"}},
		{[]string{`let e = {1, 2} where(. > 5)`, `let s = {{1, 2}, {2, 3}} flatten(. + 0)`, `o0 = e | s`, `o1 = s | e`, `o2 = (e | s) count`},
			[]string{"o0", "o1", "o2"}, []string{"{1,2,3}", "{1,2,3}", "3"}},
	} {
		views = append(views, mkView(fmt.Sprintf("E8/%d", i), sh.lines, sh.outs, sh.want, true))
	}
	// E9: one operator node evaluated on operands of different kinds from element to element (a null attribute in
	// the first, middle or last element): == null, != null, membership in a null / non-null list
	for i, order := range [][]int{{1, 2, 3}, {2, 1, 3}, {1, 3, 2}} {
		var ids []string
		for _, x := range order {
			ids = append(ids, fmt.Sprint(x))
		}
		lines := []string{
			"let items = [" + strings.Join(ids, ", ") + "] -> <sequence of item> (i:",
			"  id = i",
			`  tag = if i == 2 then null else "t"`,
			`  labels = if i == 2 then null else ["a", "b"]`,
			")",
			"o0 = items -> <sequence of flag> (item:",
			"  id = item.id",
			"  untagged = item.tag == null",
			")",
			"o1 = items -> <sequence of flag> (item:",
			"  id = item.id",
			`  hasA = "a" in item.labels`,
			")",
			"o2 = items -> <sequence of flag> (item:",
			"  id = item.id",
			`  isT = item.tag == "t"`,
			")",
		}
		var w0, w1, w2 []string
		for _, x := range order {
			w0 = append(w0, fmt.Sprintf("(id:%d,untagged:%v)", x, x == 2))
			w1 = append(w1, fmt.Sprintf("(hasA:%v,id:%d)", x != 2, x))
			w2 = append(w2, fmt.Sprintf("(id:%d,isT:%v)", x, x != 2))
		}
		views = append(views, mkView(fmt.Sprintf("E9/%d", i), lines, []string{"o0", "o1", "o2"},
			[]string{"[" + strings.Join(w0, ",") + "]", "[" + strings.Join(w1, ",") + "]", "[" + strings.Join(w2, ",") + "]"}, true))
	}
	// E4: nested transforms over list / set / map with each result type
	for i, s := range []shadow{
		{[]string{"o0 = [1, 2, 2] -> <sequence of int> (x:", "  v = x * 2", ")"}, []string{"o0"}, []string{"[(v:2),(v:4),(v:4)]"}},
		{[]string{"o0 = [1, 2, 2] -> <set of int> (x:", "  v = x * 2", ")"}, []string{"o0"}, []string{"{(v:2),(v:4)}"}},
		{[]string{"o0 = {1, 2} -> <set of int> (x:", "  v = 0", ")"}, []string{"o0"}, []string{"{(v:0)}"}},
		{[]string{"o0 = {1, 2} -> <sequence of int> (x:", "  v = 0", ")"}, []string{"o0"}, []string{"[(v:0),(v:0)]"}},
		{[]string{"let m = helper(1)", "o0 = m -> <sequence of string> (e:", "  k = e.key", "  v = e.value", ")"}, []string{"o0"}, []string{`[(k:"out",v:2),(k:"twice",v:2)]`}},
		{[]string{"let m = helper(1)", "o0 = m -> <set of string> (e:", "  k = e.key", ")"}, []string{"o0"}, []string{`{(k:"out"),(k:"twice")}`}},
		{[]string{"let m = helper(3)", "o0 = m -> <sequence of string> (e:", "  whole = e", ")"}, []string{"o0"}, []string{`[(whole:(key:"out",value:4)),(whole:(key:"twice",value:6))]`}},
		{[]string{"o0 = [1, 2] -> <sequence of int> (x:", "  inner = [10, 20] -> <sequence of int> (y:", "    s = x + y", "  )", ")"}, []string{"o0"}, []string{"[(inner:[(s:11),(s:21)]),(inner:[(s:12),(s:22)])]"}},
		{[]string{"o0 = p -> <int> (:", "  v = p + 1", ")"}, []string{"o0"}, []string{"(v:3)"}},
		{[]string{`o0 = "x" in helper(1)`, `o1 = "out" in helper(1)`, `o2 = "out" !in helper(1)`, "o3 = helper(1) count"}, []string{"o0", "o1", "o2", "o3"}, []string{"false", "true", "false", "2"}},
	} {
		views = append(views, mkView(fmt.Sprintf("E4/%d", i), s.lines, s.outs, s.want, true))
	}
	return views
}

func (c10) Bounds(tier string) map[string]interface{} {
	return map[string]interface{}{"pool": len(c10Pool) + 2, "pack": 30}
}

func (c10) Cases(tier string, emit func(string, interface{})) {
	for _, v := range c10Views(tier) {
		emit(strings.SplitN(v.Label, "/", 2)[0], v)
	}
}

func (c10) Run(c core.Case) core.Outcome {
	var v c10View
	_ = json.Unmarshal(c.Data, &v)
	var o core.Outcome
	o.Class = "ok"
	m, err := parse.NewParser().ParseString(v.Src)
	if err != nil {
		o.Class = "does-not-compile"
		o.Gap = "generated view does not compile: " + err.Error() + "\n" + v.Src
		return o
	}
	run := func() (out map[string]string, crash string) {
		defer func() {
			if r := recover(); r != nil {
				crash = fmt.Sprint(r)
			}
		}()
		s := eval.Scope{}
		s.AddInt("p", 2)
		s.AddString("q", "a")
		res := eval.EvaluateView(m, "TransformApp", "main", s)
		out = map[string]string{}
		for k, x := range res.GetMap().GetItems() {
			out[k] = valueCanonical(x)
		}
		return
	}
	// a marker on stderr so that a library os.Exit can be attributed
	fmt.Fprintf(os.Stderr, "C10 evaluating %s\n", v.Label)
	got, crash := run()
	if crash != "" {
		o.Violation = fmt.Sprintf("%s: evaluation panicked: %s\n%s", v.Label, crash, v.Src)
		o.Sig = "eval-panic|" + core.MaskMsg(crash)
		return o
	}
	for i, n := range v.Outs {
		if got[n] != v.Want[i] {
			line := ""
			for _, l := range strings.Split(v.Src, "\n") {
				if strings.HasPrefix(strings.TrimSpace(l), n+" = ") {
					line = strings.TrimSpace(l)
				}
			}
			o.Class = "differs"
			o.Violation = fmt.Sprintf("%s: %s evaluates to %s, the expression semantics give %s\n%s", v.Label, line, got[n], v.Want[i], v.Src)
			o.Sig = "value|" + exprShape(line)
			return o
		}
	}
	// equal inputs, equal results
	got2, crash2 := run()
	if crash2 != "" || fmt.Sprint(got) != fmt.Sprint(got2) {
		o.Class = "unstable"
		o.Violation = fmt.Sprintf("%s: a second evaluation on equal inputs gives a different result: %v vs %v\n%s", v.Label, got, got2, v.Src)
		o.Sig = "second-evaluation-differs"
		return o
	}
	if v.NonT {
		o.NonTrivial = core.Hash(v.Src)
	}
	return o
}

// exprShape: operator skeleton of an output line (literals masked), for signatures.
func exprShape(line string) string {
	if i := strings.Index(line, " = "); i >= 0 {
		line = line[i+3:]
	}
	var b strings.Builder
	inq := false
	for i := 0; i < len(line); i++ {
		c := line[i]
		switch {
		case c == '"':
			inq = !inq
			if !inq {
				b.WriteString("S")
			}
		case inq:
		case c >= '0' && c <= '9':
			if b.Len() == 0 || b.String()[b.Len()-1] != 'N' {
				b.WriteString("N")
			}
		case c == ' ':
		default:
			b.WriteByte(c)
		}
	}
	s := b.String()
	if len(s) > 60 {
		s = s[:60]
	}
	return s
}
