package props

// C14 — integration diagrams show exactly the calls among the selected applications.
// All call multigraphs on a small set of applications (calls placed in every statement kind) x
// project endpoints listing every subset x exclude / passthrough subsets (incl. cyclic
// passthrough chains) x human / hidden marks x {plain, clustered, EPA}. Oracle: soundness and
// completeness of the drawn arrows and of IntsBuilder.DepsOut against the call multigraph.

import (
	"encoding/json"
	"fmt"
	"io"
	"regexp"
	"runtime/debug"
	"sort"
	"strings"
	"time"

	"github.com/sirupsen/logrus"

	"github.com/anz-bank/sysl/pkg/cmdutils"
	"github.com/anz-bank/sysl/pkg/integrationdiagram"
	"github.com/anz-bank/sysl/pkg/parse"
	"github.com/anz-bank/sysl/pkg/sysl"
	"github.com/anz-bank/sysl/pkg/syslutil"
	"verif/engine/core"
)

type c14 struct{}

func init() { core.Register(c14{}) }

func (c14) ID() string    { return "C14" }
func (c14) Level() string { return "exploration" }
func (c14) Rule() string {
	return "all call multigraphs on 3 (thorough 4) namespaced applications (every ordered pair calls or not; calls rotate through plain / if / else / for-each / loop / one-of / group statements; one application has a hidden endpoint) x one application marked ~human or none x project endpoint listing every non-empty subset x every exclude subset x every passthrough subset (cyclic passthrough chains included) x {plain, clustered, EPA}. Non-trivial = configuration with at least one arrow drawn; distinct by configuration"
}
func (c14) Assumptions() []string {
	return []string{
		"'listed' applications are those named by the project endpoint's statements; 'excluded' are the project itself and the endpoint's exclude attribute",
		"arrows are read from the component diagram text (plain and clustered) and from IntsBuilder.DepsOut; the EPA (state) view is checked for termination and against DepsOut only",
		"a listed application that is also excluded is outside the alphabet",
	}
}
func (c14) Binary() string { return "ov" } // the views family owns the map iteration order

var c14ViewsCases func(tier string, emit func(string, interface{}))
var c14RunViews func(c core.Case) core.Outcome

func (c14) CaseTimeout() time.Duration { return 5 * time.Minute }
func (c14) InitWorker() {
	logrus.SetOutput(io.Discard)
	debug.SetMaxStack(64 << 20) // unbounded recursion must fail in milliseconds, not after growing a 1 GiB stack
}

type c14Case struct {
	N     int `json:"n"`
	Graph int `json:"graph"` // bitmask over ordered pairs
	Human int `json:"human"` // -1 none, else index
	// AllHidden: every endpoint is ~hidden (no call is drawn; the builder must still terminate on
	// pass-through cycles whose calls it never records)
	AllHidden bool `json:"allhidden,omitempty"`
}

var c14Apps = []string{"Ns :: A", "Ns :: B", "Cx", "Dx"}

func (c14) Bounds(tier string) map[string]interface{} {
	return map[string]interface{}{"apps_quick": 3, "apps_thorough": 4}
}

func c14Pairs(n int) [][2]int {
	var ps [][2]int
	for i := 0; i < n; i++ {
		for j := 0; j < n; j++ {
			if i != j {
				ps = append(ps, [2]int{i, j})
			}
		}
	}
	return ps
}

func (c14) Cases(tier string, emit func(string, interface{})) {
	n := 3
	for g := 0; g < 1<<uint(len(c14Pairs(n))); g++ {
		for h := -1; h < n; h++ {
			emit("n3", c14Case{N: n, Graph: g, Human: h})
		}
	}
	for g := 1; g < 1<<uint(len(c14Pairs(n))); g++ {
		emit("n3hidden", c14Case{N: n, Graph: g, Human: -1, AllHidden: true})
	}
	if tier == "thorough" {
		n = 4
		for g := 0; g < 1<<uint(len(c14Pairs(n))); g++ {
			emit("n4", c14Case{N: n, Graph: g, Human: -1})
		}
	}
	if c14ViewsCases != nil {
		c14ViewsCases(tier, emit)
	}
}

var c14Wrappers = []func(call string) string{
	func(c string) string { return c },
	func(c string) string {
		return "one of:\n    c1:\n        " + c + "\n    c2:\n        step\n    c3:\n        return ok"
	},
	func(c string) string { return "if x:\n    " + c },
	func(c string) string { return "if x:\n    step\nelse:\n    " + c },
	func(c string) string { return "for each i:\n    " + c },
	func(c string) string { return "loop 2:\n    grp:\n        " + c },
	func(c string) string { return "one of:\n    c1:\n        step\n    c2:\n        " + c },
	func(c string) string { return "while w:\n    " + c + "\n    return ok" },
}

func c14Source(cs c14Case) string {
	var b strings.Builder
	pairs := c14Pairs(cs.N)
	k := 0
	for i := 0; i < cs.N; i++ {
		tag := ""
		if cs.Human == i {
			tag = " [~human]"
		}
		eh := ""
		if cs.AllHidden {
			eh = " [~hidden]"
		}
		fmt.Fprintf(&b, "%s%s:\n    e%s:\n", c14Apps[i], tag, eh)
		any := false
		for pi, p := range pairs {
			if p[0] != i || cs.Graph&(1<<uint(pi)) == 0 {
				continue
			}
			any = true
			tgtEp := "e"
			if p[1] == cs.N-1 && (pi%2 == 1) {
				tgtEp = "h" // hidden endpoint of the last application
			}
			call := c14Apps[p[1]] + " <- " + tgtEp
			b.WriteString(indentLines(c14Wrappers[k%len(c14Wrappers)](call), 2))
			k++
		}
		if !any {
			b.WriteString("        ...\n")
		}
		if i == cs.N-1 {
			b.WriteString("    h [~hidden]:\n        ...\n")
		}
	}
	return b.String()
}

type callEdge struct{ Src, Tgt, TgtEp string }

func moduleCalls(m *sysl.Module) []callEdge {
	var out []callEdge
	for an, app := range m.GetApps() {
		for _, ep := range app.GetEndpoints() {
			var walk func(ss []*sysl.Statement)
			walk = func(ss []*sysl.Statement) {
				for _, s := range ss {
					switch x := s.GetStmt().(type) {
					case *sysl.Statement_Call:
						out = append(out, callEdge{an, syslutil.GetAppName(x.Call.GetTarget()), x.Call.GetEndpoint()})
					case *sysl.Statement_Cond:
						walk(x.Cond.GetStmt())
					case *sysl.Statement_Loop:
						walk(x.Loop.GetStmt())
					case *sysl.Statement_LoopN:
						walk(x.LoopN.GetStmt())
					case *sysl.Statement_Foreach:
						walk(x.Foreach.GetStmt())
					case *sysl.Statement_Group:
						walk(x.Group.GetStmt())
					case *sysl.Statement_Alt:
						for _, c := range x.Alt.GetChoice() {
							walk(c.GetStmt())
						}
					}
				}
			}
			walk(ep.GetStmt())
		}
	}
	return out
}

var (
	reComp  = regexp.MustCompile(`^\[(.*)\] as (_\d+)( <<highlight>>)?$`)
	reArrow = regexp.MustCompile(`^(_\d+) --> (_\d+)( <<indirect>>)?$`)
)

// readComponentArrows: arrows (application names) of a component diagram.
func readComponentArrows(d string) ([][2]string, string) {
	alias := map[string]string{}
	var out [][2]string
	for _, raw := range strings.Split(d, "\n") {
		line := strings.TrimSpace(raw)
		if m := reComp.FindStringSubmatch(line); m != nil {
			alias[m[2]] = m[1]
			continue
		}
		if m := reArrow.FindStringSubmatch(line); m != nil {
			out = append(out, [2]string{m[1], m[2]})
			continue
		}
		if strings.Contains(line, "-->") || strings.Contains(line, "->") {
			if strings.Contains(line, "<|..") {
				continue
			}
			return nil, "unreadable arrow line: " + line
		}
	}
	for i := range out {
		a, ok1 := alias[out[i][0]]
		b, ok2 := alias[out[i][1]]
		if !ok1 || !ok2 {
			return nil, fmt.Sprintf("arrow between undeclared components %v", out[i])
		}
		out[i] = [2]string{a, b}
	}
	return out, ""
}

var (
	reEPATop   = regexp.MustCompile(`^state "([^"]*)" as (X_\d+)`)
	reEPAState = regexp.MustCompile(`^\s+state "([^"]*)" as (_\d+)`)
	reEPAEdge  = regexp.MustCompile(`^\s*(_\d+) -[^>]*> (_\d+)`)
)

// readEPAArrows reads an endpoint-analysis (state) diagram: the pairs (application, application) of arrows that
// lead from a state inside one application's box to a state inside another's.
func readEPAArrows(d string) ([][2]string, string) {
	owner := map[string]string{}
	cur := ""
	seen := map[[2]string]bool{}
	var out [][2]string
	for _, l := range strings.Split(d, "\n") {
		switch {
		case reEPATop.MatchString(l):
			cur = reEPATop.FindStringSubmatch(l)[1]
		case strings.TrimSpace(l) == "}":
			cur = ""
		case reEPAState.MatchString(l):
			if cur == "" {
				return nil, "state declared outside an application box: " + l
			}
			owner[reEPAState.FindStringSubmatch(l)[2]] = cur
		case reEPAEdge.MatchString(l):
			m := reEPAEdge.FindStringSubmatch(l)
			a, okA := owner[m[1]]
			b, okB := owner[m[2]]
			if !okA || !okB {
				return nil, "arrow between undeclared states: " + l
			}
			if a != b && !seen[[2]string{a, b}] {
				seen[[2]string{a, b}] = true
				out = append(out, [2]string{a, b})
			}
		}
	}
	return out, ""
}

func strAttrArr(vals []string) *sysl.Attribute {
	var elts []*sysl.Attribute
	for _, v := range vals {
		elts = append(elts, &sysl.Attribute{Attribute: &sysl.Attribute_S{S: v}})
	}
	return &sysl.Attribute{Attribute: &sysl.Attribute_A{A: &sysl.Attribute_Array{Elt: elts}}}
}

func subsetOf(names []string, mask int) []string {
	var out []string
	for i, n := range names {
		if mask&(1<<uint(i)) != 0 {
			out = append(out, n)
		}
	}
	return out
}

func (c14) Run(c core.Case) core.Outcome {
	if c.Kind == "views" {
		return c14RunViews(c)
	}
	var cs c14Case
	_ = json.Unmarshal(c.Data, &cs)
	var o core.Outcome
	o.Class = "ok"
	src := c14Source(cs)
	base, err := parse.NewParser().ParseString(src)
	if err != nil {
		o.Gap = "graph source does not compile: " + err.Error() + "\n" + src
		return o
	}
	apps := c14Apps[:cs.N]
	calls := moduleCalls(base)
	human := map[string]bool{}
	if cs.Human >= 0 {
		human[apps[cs.Human]] = true
	}
	hasCall := func(a, b string) bool {
		for _, e := range calls {
			if e.Src == a && e.Tgt == b {
				return true
			}
		}
		return false
	}
	configs, drawn := 0, 0
	lg := logrus.New()
	lg.SetOutput(io.Discard)
	full := 1 << uint(cs.N)
	for seeds := 1; seeds < full; seeds++ {
		for excl := 0; excl < full; excl++ {
			if excl&seeds != 0 {
				continue
			}
			for pass := 0; pass < full; pass++ {
				if cs.N == 4 && (bitsSet(excl) > 1 || bitsSet(pass) > 2) {
					continue
				}
				seedNames, exclNames, passNames := subsetOf(apps, seeds), subsetOf(apps, excl), subsetOf(apps, pass)
				// project application
				var stmts []*sysl.Statement
				for _, s := range seedNames {
					stmts = append(stmts, &sysl.Statement{Stmt: &sysl.Statement_Action{Action: &sysl.Action{Action: s}}})
				}
				attrs := map[string]*sysl.Attribute{}
				if len(exclNames) > 0 {
					attrs["exclude"] = strAttrArr(exclNames)
				}
				if len(passNames) > 0 {
					attrs["passthrough"] = strAttrArr(passNames)
				}
				m := &sysl.Module{Apps: map[string]*sysl.Application{}}
				for k, v := range base.Apps {
					m.Apps[k] = v
				}
				m.Apps["Proj"] = &sysl.Application{Name: &sysl.AppName{Part: []string{"Proj"}}, Endpoints: map[string]*sysl.Endpoint{
					"view": {Name: "view", Stmt: stmts, Attrs: attrs},
				}}
				excluded := map[string]bool{"Proj": true}
				for _, e := range exclNames {
					excluded[e] = true
				}
				for vi, view := range []string{"plain", "clustered", "epa"} {
					configs++
					desc := func() string {
						return fmt.Sprintf("apps/calls:\n%sproject lists %v exclude %v passthrough %v view %s", src, seedNames, exclNames, passNames, view)
					}
					fail := func(sig, msg string) core.Outcome {
						o.Class = "violation"
						o.Violation = desc() + ": " + msg
						o.Sig = sig
						return o
					}
					var out map[string]string
					var gerr error
					crash := ""
					func() {
						defer func() {
							if r := recover(); r != nil {
								crash = fmt.Sprint(r)
							}
						}()
						out, gerr = integrationdiagram.GenerateIntegrations(&cmdutils.CmdContextParamIntgen{Project: "Proj", Output: "%(epname)", Clustered: vi == 1, EPA: vi == 2}, m, lg)
					}()
					if crash != "" {
						return fail("crash|"+core.MaskMsg(crash), "generation panicked: "+crash)
					}
					if gerr != nil {
						return fail("error", "generation failed: "+gerr.Error())
					}
					// builder level
					b := integrationdiagram.MakeBuilderfromStmt(m, stmts, syslutil.MakeStrSet(append([]string{"Proj"}, exclNames...)...), syslutil.MakeStrSet(passNames...))
					depPairs := map[[2]string]bool{}
					for _, d := range b.DepsOut {
						a, t := d.Self.Name, d.Target.Name
						if !hasCall(a, t) {
							return fail("unsound-dep", fmt.Sprintf("DepsOut has %s -> %s but the model has no such call", a, t))
						}
						if excluded[a] || excluded[t] {
							return fail("excluded-dep", fmt.Sprintf("DepsOut has %s -> %s which touches an excluded application", a, t))
						}
						depPairs[[2]string{a, t}] = true
					}
					if view == "epa" {
						// endpoint-analysis view: arrows between states owned by different applications
						if pass != 0 || cs.Human >= 0 || cs.AllHidden {
							continue
						}
						epaArrows, gap := readEPAArrows(out["view"])
						if gap != "" {
							o.Gap = desc() + ": " + gap
							return o
						}
						for _, e := range calls {
							listed := false
							for _, s := range seedNames {
								listed = listed || s == e.Src
							}
							if !listed || e.Src == e.Tgt || excluded[e.Tgt] || e.TgtEp == "h" {
								continue
							}
							found := false
							for _, a := range epaArrows {
								if labelMatches(a[0], e.Src) && labelMatches(a[1], e.Tgt) {
									found = true
								}
							}
							if !found {
								return fail("missing-arrow|epa", fmt.Sprintf("call %s -> %s (%s) from a listed application has no arrow between the two applications' states in the endpoint-analysis view; arrows %v\n%s", e.Src, e.Tgt, e.TgtEp, epaArrows, out["view"]))
							}
						}
						continue
					}
					text := out["view"]
					arrows, gap := readComponentArrows(text)
					if gap != "" {
						o.Gap = desc() + ": " + gap
						return o
					}
					got := map[[2]string]bool{}
					for _, a := range arrows {
						// clustered view labels may differ: compare by the last name part
						got[a] = true
						if !hasCallByLabel(calls, a[0], a[1]) {
							return fail("unsound-arrow", fmt.Sprintf("arrow %s --> %s without a call statement\n%s", a[0], a[1], text))
						}
						if labelIn(excluded, a[0]) || labelIn(excluded, a[1]) {
							return fail("excluded-arrow", fmt.Sprintf("arrow %s --> %s touches an excluded application\n%s", a[0], a[1], text))
						}
					}
					if len(arrows) > 0 {
						drawn++
					}
					// completeness
					for _, e := range calls {
						listed := false
						for _, s := range seedNames {
							listed = listed || s == e.Src
						}
						if !listed || human[e.Src] || e.Src == e.Tgt || excluded[e.Tgt] || human[e.Tgt] {
							continue
						}
						if e.TgtEp == "h" || cs.AllHidden {
							continue // hidden endpoint
						}
						found := false
						for a := range got {
							if labelMatches(a[0], e.Src) && labelMatches(a[1], e.Tgt) {
								found = true
							}
						}
						if !found {
							return fail("missing-arrow", fmt.Sprintf("call %s -> %s (%s) from a listed application is not drawn; arrows %v\n%s", e.Src, e.Tgt, e.TgtEp, arrows, text))
						}
					}
				}
			}
		}
	}
	o.Traces = configs
	o.Extra = map[string]int{"configurations": configs, "with_arrows": drawn}
	if drawn > 0 || (cs.AllHidden && configs > 0) {
		o.NonTrivial = fmt.Sprintf("%d/%d/%d/%v", cs.N, cs.Graph, cs.Human, cs.AllHidden)
	}
	return o
}

func bitsSet(x int) int {
	n := 0
	for ; x != 0; x &= x - 1 {
		n++
	}
	return n
}

// labelMatches: a component label denotes the application (labels are the application name, or in
// the clustered view its last part).
func labelMatches(label, app string) bool {
	if label == app {
		return true
	}
	parts := strings.Split(app, " :: ")
	return label == parts[len(parts)-1]
}

func labelIn(set map[string]bool, label string) bool {
	for a := range set {
		if labelMatches(label, a) {
			return true
		}
	}
	return false
}

func hasCallByLabel(calls []callEdge, a, b string) bool {
	for _, e := range calls {
		if labelMatches(a, e.Src) && labelMatches(b, e.Tgt) {
			return true
		}
	}
	return false
}

var _ = sort.Strings
