package props

// C02 — the compiled model says exactly what the specification text declares.
// Bounded-exhaustive generation from an abstract description; oracle: projection of the
// compiled module == intended summary computed from the abstract description alone.

import (
	"encoding/json"
	"fmt"
	"io"
	"strings"
	"time"

	"github.com/sirupsen/logrus"

	"github.com/anz-bank/sysl/pkg/parse"
	"verif/engine/core"
	"verif/engine/gen"
)

type c02 struct{}

func init() { core.Register(c02{}) }

func (c02) ID() string    { return "C02" }
func (c02) Level() string { return "exploration" }
func (c02) Rule() string {
	return "complete enumeration of six sub-spaces of an abstract specification language: L1 every field descriptor (13 primitives + sized forms + 5 reference spellings x optional x set/sequence) alone and packed in 7 positions; L2 all ordered pairs of 14 member constructs as siblings and across apps, names pool in every name position; L3 all ordered statement forests up to 3 nodes (thorough 4) in 4 endpoint kinds, every leaf in every block, width sweep 1..6 children, if/else chains; L4 REST trees (path depth <=2 (3), typed/untyped variables, queries, bodies, verbs); L5 every attribute/annotation form on every attachable element and all slot pairs; L6 enum values and sizes at boundaries; each rendered under 3 layouts. Non-trivial = compiles and the summary has at least 3 lines; distinct by rendered text"
}
func (c02) Assumptions() []string {
	return []string{
		"the intended summary follows the representation conventions documented by the language (tags are the 'patterns' attribute, REST endpoints carry the 'rest' tag and inherit path attributes, 'if x' is a Cond with test 'if x', 'for i in xs'/'loop n'/'alt x' are groups, a subscriber implies a pubsub endpoint in the publisher with a call back)",
		"set/sequence typed parameters are excluded (documented FIXME in the language: not supported)",
	}
}
func (c02) CaseTimeout() time.Duration { return 60 * time.Second }
func (c02) InitWorker()                { logrus.SetOutput(io.Discard) }

type specCase struct {
	Label  string     `json:"label"`
	Spec   *gen.Spec  `json:"spec"`
	Layout gen.Layout `json:"layout"`
}

var c02Layouts = []gen.Layout{{Unit: "    "}, {Unit: "  ", BlankLines: true}, {Unit: "\t", Comments: true}}

func c02Specs(tier string) []gen.Labeled {
	full := tier == "thorough"
	var all []gen.Labeled
	all = append(all, gen.L1()...)
	all = append(all, gen.L2()...)
	all = append(all, gen.L3(full)...)
	all = append(all, gen.L4(full)...)
	all = append(all, gen.L5()...)
	all = append(all, gen.L6()...)
	return all
}

func (c02) Bounds(tier string) map[string]interface{} {
	return map[string]interface{}{"layouts": len(c02Layouts), "descriptors": len(gen.Descriptors()), "members": len(gen.MemberAlphabet())}
}

func (c02) Cases(tier string, emit func(string, interface{})) {
	for i, l := range c02Specs(tier) {
		for li, lay := range c02Layouts {
			if tier != "thorough" && li != i%3 && !strings.HasPrefix(l.Label, "L6") {
				continue // quick: one layout per spec, rotating; thorough: all three
			}
			emit(strings.SplitN(l.Label, "/", 2)[0], specCase{Label: l.Label, Spec: l.Spec, Layout: lay})
		}
	}
}

func (c02) Run(c core.Case) core.Outcome {
	var sc specCase
	if err := json.Unmarshal(c.Data, &sc); err != nil {
		return core.Outcome{Gap: err.Error()}
	}
	var o core.Outcome
	r := gen.Render(sc.Spec, sc.Layout)
	m, err, crash := compileFiles(filesCase{Root: "t.sysl", Files: map[string]string{"t.sysl": r.Text}}, parse.Settings{})
	family := strings.Join(strings.Split(sc.Label, "/")[:2], "/")
	d, _ := json.Marshal(map[string]string{"text": r.Text})
	switch {
	case crash != "":
		msg, frame := core.CrashSig(crash)
		o.Class = "crash"
		o.Violation = fmt.Sprintf("%s: well-formed specification crashes the compiler: %s at %s\n%s", sc.Label, msg, frame, r.Text)
		o.Sig = "crash|" + frame
		o.Detail = d
		return o
	case err != nil:
		o.Class = "rejected"
		o.Violation = fmt.Sprintf("%s: well-formed specification is rejected: %v\n%s", sc.Label, err, r.Text)
		o.Sig = "rejected|" + family
		o.Detail = d
		return o
	}
	want := gen.Intended(sc.Spec)
	got := Project(m)
	if diff := SummaryDiff(want, got); diff != "" {
		o.Class = "differs"
		o.Violation = fmt.Sprintf("%s: model differs from what the text declares: %s\n%s", sc.Label, diff, r.Text)
		o.Sig = "differs|" + diffClass(diff)
		o.Detail = d
		return o
	}
	o.Class = "equal"
	if len(want) >= 3 {
		o.NonTrivial = core.Hash(r.Text)
	}
	return o
}

// diffClass: a name-free form of the first missing and first extra line, for the signature.
func diffClass(diff string) string {
	norm := func(l string) string {
		kws := []string{" query ", " urlparam ", " param ", " attr ", " tag ", " kind=", " item ", " member ", " pk ", " rest ", " long=", " doc=", " pubsub", " source=", " mixin ", " action ", " call ", " ret ", " cond ", " loop ", " loopn ", " foreach ", " group ", " alt ", " choice ", " set of ", " sequence of ", " ref(", " INT", " STRING", " FLOAT", " DECIMAL", " BOOL", " DATE", " BYTES", " ANY", " untyped", " notype"}
		sp := strings.Index(l, " ")
		if sp < 0 {
			return l
		}
		best := -1
		for _, k := range kws {
			if j := strings.Index(l[sp:], k); j >= 0 && (best < 0 || j < best) {
				best = j
			}
		}
		if best < 0 {
			return l[:sp]
		}
		return core.MaskMsg(l[:sp] + l[sp+best:])
	}
	first := func(tag string) string {
		i := strings.Index(diff, tag+" [\"")
		if i < 0 {
			return "-"
		}
		rest := diff[i+len(tag)+3:]
		j := strings.Index(rest, "\" \"")
		k := strings.Index(rest, "\"]")
		if j < 0 || (k >= 0 && k < j) {
			j = k
		}
		if j < 0 {
			return norm(rest)
		}
		return norm(rest[:j])
	}
	m, e := first("missing"), first("extra")
	// a reference that differs only in how it is scoped: identify by the reference alone
	if i, j := strings.Index(m, "ref("), strings.Index(e, "ref("); i >= 0 && j >= 0 && !strings.Contains(m, " query ") {
		cut := func(x string, i int) string {
			x = x[i:]
			if k := strings.Index(x, ")"); k >= 0 {
				x = x[:k+1]
			}
			return x
		}
		return cut(m, i) + "=>" + cut(e, j)
	}
	return m + "=>" + e
}
