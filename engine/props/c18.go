package props

// C18 — file access never escapes the project root.
//
// Product of a reference path automaton (depth counter over segments) with the
// real syslutil.ChrootFs sitting on a recording filesystem. Every path string
// over the segment alphabet up to the bound, for every operation, for roots of
// depth 0..3, is pushed through the real wrapper; every path that reaches the
// recording filesystem must be the root or below it, and every spelling that
// never leaves the root must be forwarded to root+canonical(path).
//
// Second part: the real loader (LoadSyslModule with a root) compiling a module
// whose import statements use each spelling, on a recording filesystem.

import (
	"encoding/json"
	"fmt"
	"io"
	"os"
	"path/filepath"
	"sort"
	"strings"
	"time"

	"github.com/sirupsen/logrus"
	"github.com/spf13/afero"

	"github.com/anz-bank/sysl/pkg/loader"
	"github.com/anz-bank/sysl/pkg/syslutil"
	"verif/engine/core"
)

type c18 struct{}

func init() { core.Register(c18{}) }

func (c18) ID() string    { return "C18" }
func (c18) Level() string { return "model_checking" }
func (c18) Rule() string {
	return "product of the path automaton (states = root x depth counter x escaped flag x operation) with the real ChrootFs: all path strings over segments {'', '.', '..', 'a', 'b.c', 'd e'} up to the length bound x {relative, absolute} x {trailing slash} x roots x every wrapper operation (rename: each argument independently). A case is non-trivial when its paths include both escaping and in-root spellings; distinct = (root, op) pairs plus distinct (module, import) spellings for the loader part"
}
func (c18) Assumptions() []string {
	return []string{
		"lexical confinement only: symlinks inside the root are not modelled (the wrapper itself is lexical)",
		"unix path separator (the sandbox OS); windows volume handling is not explored",
		"a spelling that leaves the root lexically and re-enters it is allowed to be either refused or served inside the root; only never-leaving spellings must work",
	}
}

var c18Segs = []string{"", ".", "..", "a", "b.c", "d e"}
var c18Roots = []string{"/", "/r", "/r/s", "/r/s/t", "/r/", "/r/./s", "/r/s/../q"}

var c18Ops = []string{"Create", "Mkdir", "MkdirAll", "Open", "OpenFile", "Remove", "RemoveAll", "Stat", "Chmod", "Chown", "Chtimes", "Rename.old", "Rename.new", "Rename.both"}

type c18Case struct {
	Root   string `json:"root"`
	Op     string `json:"op"`
	MaxSeg int    `json:"maxseg"`
	// loader part
	Module string `json:"module,omitempty"`
	Import string `json:"import,omitempty"`
	// stacked part: a second ChrootFs opened on top of the project root's (template / output / transform roots)
	Outer string `json:"outer,omitempty"`
}

func (c18) Bounds(tier string) map[string]interface{} {
	n := 5
	if tier == "thorough" {
		n = 7
	}
	return map[string]interface{}{"max_segments": n, "roots": c18Roots, "ops": c18Ops, "segments": c18Segs}
}

func (c18) Cases(tier string, emit func(string, interface{})) {
	n := 5
	if tier == "thorough" {
		n = 7
	}
	for _, r := range c18Roots {
		for _, op := range c18Ops {
			emit("chroot", c18Case{Root: r, Op: op, MaxSeg: n})
		}
	}
	// stacked roots: a second wrapper with each outer root spelling on top of the project root's wrapper; whatever
	// the outer root and the path, nothing outside the PROJECT root may be reached
	for _, r := range []string{"/r", "/r/s"} {
		for _, outer := range []string{"t", "/t", ".", "..", "../t", "a/../../../s", "t/..", "/..", "../../r", "./../r/s"} {
			for _, op := range c18Ops {
				emit("stacked", c18Case{Root: r, Outer: outer, Op: op, MaxSeg: 3})
			}
		}
	}
	// loader part: module spelling x import spelling x root
	mods := []string{"m.sysl", "/m.sysl", "./m.sysl", "sub/../m.sysl", "/sub/m2.sysl", "sub/m2.sysl", "../m.sysl", "/../m.sysl", "sub/../../m.sysl"}
	imps := []string{"x", "/x", "./x", "sub/../x", "/sub/../x", "sub/y", "/sub/y", "../x", "/../x", "../../x", "sub/../../x", "/sub/../../x", "../r/x", "../../r/x", "/../../../x", "../sub/y", "..", "../", "/..", "x/../../x", "./../x"}
	for _, r := range []string{"/r", "/r/s"} {
		for _, m := range mods {
			for _, i := range imps {
				emit("loader", c18Case{Root: r, Module: m, Import: i})
			}
		}
	}
}

// recording filesystem -------------------------------------------------------

type recFs struct {
	afero.Fs
	calls []recCall
}
type recCall struct {
	Op    string
	Paths []string
}

func (r *recFs) rec(op string, p ...string) { r.calls = append(r.calls, recCall{op, p}) }

func (r *recFs) Create(n string) (afero.File, error) { r.rec("Create", n); return r.Fs.Create(n) }
func (r *recFs) Mkdir(n string, p os.FileMode) error { r.rec("Mkdir", n); return r.Fs.Mkdir(n, p) }
func (r *recFs) MkdirAll(n string, p os.FileMode) error {
	r.rec("MkdirAll", n)
	return r.Fs.MkdirAll(n, p)
}
func (r *recFs) Open(n string) (afero.File, error) { r.rec("Open", n); return r.Fs.Open(n) }
func (r *recFs) OpenFile(n string, f int, p os.FileMode) (afero.File, error) {
	r.rec("OpenFile", n)
	return r.Fs.OpenFile(n, f, p)
}
func (r *recFs) Remove(n string) error    { r.rec("Remove", n); return r.Fs.Remove(n) }
func (r *recFs) RemoveAll(n string) error { r.rec("RemoveAll", n); return r.Fs.RemoveAll(n) }
func (r *recFs) Rename(o, n string) error { r.rec("Rename", o, n); return r.Fs.Rename(o, n) }
func (r *recFs) Stat(n string) (os.FileInfo, error) {
	r.rec("Stat", n)
	return r.Fs.Stat(n)
}
func (r *recFs) Chmod(n string, m os.FileMode) error { r.rec("Chmod", n); return r.Fs.Chmod(n, m) }
func (r *recFs) Chown(n string, u, g int) error      { r.rec("Chown", n); return r.Fs.Chown(n, u, g) }
func (r *recFs) Chtimes(n string, a, m time.Time) error {
	r.rec("Chtimes", n)
	return r.Fs.Chtimes(n, a, m)
}
func (r *recFs) LstatIfPossible(n string) (os.FileInfo, bool, error) {
	r.rec("Lstat", n)
	fi, err := r.Fs.Stat(n)
	return fi, false, err
}

// nullFs: answers every call with "not exist" (cheap base for the product part).
type nullFs struct{}

func (nullFs) Create(string) (afero.File, error)                     { return nil, os.ErrNotExist }
func (nullFs) Mkdir(string, os.FileMode) error                       { return os.ErrNotExist }
func (nullFs) MkdirAll(string, os.FileMode) error                    { return os.ErrNotExist }
func (nullFs) Open(string) (afero.File, error)                       { return nil, os.ErrNotExist }
func (nullFs) OpenFile(string, int, os.FileMode) (afero.File, error) { return nil, os.ErrNotExist }
func (nullFs) Remove(string) error                                   { return os.ErrNotExist }
func (nullFs) RemoveAll(string) error                                { return os.ErrNotExist }
func (nullFs) Rename(string, string) error                           { return os.ErrNotExist }
func (nullFs) Stat(string) (os.FileInfo, error)                      { return nil, os.ErrNotExist }
func (nullFs) Name() string                                          { return "null" }
func (nullFs) Chmod(string, os.FileMode) error                       { return os.ErrNotExist }
func (nullFs) Chown(string, int, int) error                          { return os.ErrNotExist }
func (nullFs) Chtimes(string, time.Time, time.Time) error            { return os.ErrNotExist }

// reference automaton ----------------------------------------------------------

// refWalk: segments -> (neverNegative, canonical in-root relative path)
func refWalk(segs []string) (bool, string) {
	var stack []string
	ok := true
	for _, s := range segs {
		switch s {
		case "", ".":
		case "..":
			if len(stack) == 0 {
				ok = false
			} else {
				stack = stack[:len(stack)-1]
			}
		default:
			stack = append(stack, s)
		}
	}
	return ok, strings.Join(stack, "/")
}

func underRoot(root, p string) bool {
	root = filepath.Clean(root)
	p = filepath.Clean(p)
	if root == "/" {
		return strings.HasPrefix(p, "/")
	}
	return p == root || strings.HasPrefix(p, root+"/")
}

func expectPath(root, canon string) string {
	root = filepath.Clean(root)
	if canon == "" {
		return root
	}
	if root == "/" {
		return "/" + canon
	}
	return root + "/" + canon
}

func callOp(fs afero.Fs, op, p, fixed string) {
	switch op {
	case "Create":
		_, _ = fs.Create(p)
	case "Mkdir":
		_ = fs.Mkdir(p, 0o755)
	case "MkdirAll":
		_ = fs.MkdirAll(p, 0o755)
	case "Open":
		_, _ = fs.Open(p)
	case "OpenFile":
		_, _ = fs.OpenFile(p, os.O_RDWR|os.O_CREATE, 0o644)
	case "Remove":
		_ = fs.Remove(p)
	case "RemoveAll":
		_ = fs.RemoveAll(p)
	case "Stat":
		_, _ = fs.Stat(p)
	case "Chmod":
		_ = fs.Chmod(p, 0o600)
	case "Chown":
		_ = fs.Chown(p, 1, 1)
	case "Chtimes":
		_ = fs.Chtimes(p, time.Unix(1, 0), time.Unix(1, 0))
	case "Rename.old":
		_ = fs.Rename(p, fixed)
	case "Rename.new":
		_ = fs.Rename(fixed, p)
	case "Rename.both":
		_ = fs.Rename(p, p)
	}
}

func (c18) Run(c core.Case) core.Outcome {
	var cs c18Case
	_ = json.Unmarshal(c.Data, &cs)
	if c.Kind == "loader" {
		return c18Loader(cs)
	}
	rec := &recFs{Fs: nullFs{}}
	var fs afero.Fs = syslutil.NewChrootFs(rec, cs.Root)
	if cs.Outer != "" {
		fs = syslutil.NewChrootFs(fs, cs.Outer)
	}
	var out core.Outcome
	out.Class = "ok"
	states := map[string]bool{}
	nEsc, nIn := 0, 0
	baseOp := strings.SplitN(cs.Op, ".", 2)[0]
	var segs []string
	var walk func(depth int)
	check := func(segs []string) {
		okRef, canon := refWalk(segs)
		for _, abs := range []bool{false, true} {
			for _, trail := range []bool{false, true} {
				p := strings.Join(segs, "/")
				if abs {
					p = "/" + p
				}
				if trail {
					p += "/"
				}
				rec.calls = rec.calls[:0]
				callOp(fs, cs.Op, p, "fixed.in")
				out.Transitions++
				if okRef {
					nIn++
				} else {
					nEsc++
				}
				// safety
				for _, call := range rec.calls {
					for _, rp := range call.Paths {
						if !underRoot(cs.Root, rp) && out.Violation == "" {
							out.Violation = fmt.Sprintf("root %q: %s(%q) reached the underlying filesystem as %s%q, outside the root", cs.Root, cs.Op, p, call.Op, call.Paths)
							out.Sig = "escape|" + cs.Op
							if cs.Outer != "" {
								out.Violation = fmt.Sprintf("project root %q with a second root %q opened on top: %s(%q) reached the underlying filesystem as %s%q, outside the project root", cs.Root, cs.Outer, cs.Op, p, call.Op, call.Paths)
								out.Sig = "stacked-escape|" + cs.Op
							}
						}
					}
				}
				// liveness for never-leaving spellings
				if okRef && out.Violation == "" && cs.Outer == "" {
					want := expectPath(cs.Root, canon)
					good := false
					for _, call := range rec.calls {
						if call.Op != baseOp {
							continue
						}
						switch cs.Op {
						case "Rename.old":
							good = call.Paths[0] == want
						case "Rename.new":
							good = call.Paths[1] == want
						case "Rename.both":
							good = call.Paths[0] == want && call.Paths[1] == want
						default:
							good = call.Paths[0] == want
						}
					}
					if !good {
						out.Violation = fmt.Sprintf("root %q: in-root spelling %s(%q) was not forwarded to %q (calls: %v)", cs.Root, cs.Op, p, want, rec.calls)
						out.Sig = "inroot-not-served|" + cs.Op
					}
				}
			}
		}
	}
	depthOf := func(segs []string) (int, bool) {
		d, esc := 0, false
		for _, s := range segs {
			switch s {
			case "", ".":
			case "..":
				d--
				if d < 0 {
					esc = true
					d = 0
				}
			default:
				d++
			}
		}
		return d, esc
	}
	walk = func(depth int) {
		if len(segs) > 0 {
			check(segs)
			d, esc := depthOf(segs)
			states[fmt.Sprintf("%d/%v", d, esc)] = true
		}
		if depth == cs.MaxSeg {
			return
		}
		for _, s := range c18Segs {
			segs = append(segs, s)
			walk(depth + 1)
			segs = segs[:len(segs)-1]
		}
	}
	walk(0)
	out.States = len(states)
	out.Traces = out.Transitions
	if nEsc > 0 && nIn > 0 {
		out.NonTrivial = cs.Root + "|" + cs.Outer + "|" + cs.Op
	}
	out.Extra = map[string]int{"paths_escaping": nEsc, "paths_inroot": nIn}
	return out
}

func c18Loader(cs c18Case) core.Outcome {
	out := core.Outcome{Class: "loader:"}
	mem := afero.NewMemMapFs()
	root := cs.Root
	w := func(p, s string) { _ = afero.WriteFile(mem, p, []byte(s), 0o644) }
	imp := "import " + cs.Import + "\n"
	w(root+"/m.sysl", imp+"M:\n    ...\n")
	w(root+"/sub/m2.sysl", imp+"M:\n    ...\n")
	w(root+"/x.sysl", "X:\n    ...\n")
	w(root+"/sub/y.sysl", "Y:\n    ...\n")
	w(root+"/sub/x.sysl", "SX:\n    ...\n")
	// decoys outside the root
	parent := filepath.Dir(root)
	w(filepath.Join(parent, "x.sysl"), "OUTSIDE:\n    ...\n")
	w(filepath.Join(parent, "m.sysl"), "OUTSIDEM:\n    ...\n")
	w("/x.sysl", "OUTSIDE:\n    ...\n")
	w("/m.sysl", "OUTSIDEM:\n    ...\n")
	w(filepath.Join(parent, "sub/y.sysl"), "OUTSIDE:\n    ...\n")
	rec := &recFs{Fs: mem}
	logger := logrus.New()
	logger.SetOutput(io.Discard)
	logrus.SetOutput(io.Discard)
	m, _, err := loader.LoadSyslModule(root, cs.Module, rec, logger)
	for _, call := range rec.calls {
		for _, rp := range call.Paths {
			if !underRoot(root, rp) && out.Violation == "" {
				out.Violation = fmt.Sprintf("root %q module %q import %q: %s%q reached the filesystem outside the root", root, cs.Module, cs.Import, call.Op, call.Paths)
				out.Sig = "loader-escape|" + call.Op
			}
		}
	}
	apps := []string{}
	if m != nil {
		for k := range m.Apps {
			apps = append(apps, k)
		}
		sort.Strings(apps)
		for _, a := range apps {
			if strings.HasPrefix(a, "OUTSIDE") && out.Violation == "" {
				out.Violation = fmt.Sprintf("root %q module %q import %q: content from outside the root was compiled (%v)", root, cs.Module, cs.Import, apps)
				out.Sig = "loader-outside-content"
			}
		}
	}
	// in-root spellings agree: expected result from the reference automaton
	modDir, modOK, modCanon := c18Resolve("", cs.Module)
	if modOK && (modCanon == "m.sysl" || modCanon == "sub/m2.sysl") {
		base := modDir
		iOK, iCanon := false, ""
		if strings.HasPrefix(cs.Import, "/") {
			_, iOK, iCanon = c18Resolve("", cs.Import)
		} else {
			_, iOK, iCanon = c18Resolve(base, cs.Import)
		}
		want := map[string]string{"x": "X", "sub/y": "Y", "sub/x": "SX"}
		if iOK {
			if app, ok := want[iCanon]; ok {
				got := strings.Join(apps, ",")
				if err != nil || got != "M,"+app {
					if out.Violation == "" {
						out.Violation = fmt.Sprintf("root %q module %q import %q stays inside the root (resolves to %s.sysl) but compile gave apps=%v err=%v", root, cs.Module, cs.Import, iCanon, apps, err)
						out.Sig = "loader-inroot-not-served"
					}
				}
				out.Class = "loader:inroot-served"
				out.NonTrivial = "L|" + cs.Module + "|" + cs.Import
				return out
			}
		}
	}
	if err != nil {
		out.Class = "loader:refused"
		out.NonTrivial = "L|" + cs.Module + "|" + cs.Import
	} else {
		out.Class = "loader:served-other"
	}
	return out
}

// c18Resolve walks a path relative to dir (in-root relative dir) ; returns (dir of result, neverNegative, canonical)
func c18Resolve(dir, p string) (string, bool, string) {
	var segs []string
	if dir != "" && dir != "." {
		segs = strings.Split(dir, "/")
	}
	segs = append(segs, strings.Split(p, "/")...)
	ok, canon := refWalk(segs)
	canon = strings.TrimSuffix(canon, ".sysl")
	d := filepath.Dir(canon)
	if d == "." {
		d = ""
	}
	if strings.HasSuffix(p, ".sysl") {
		return d, ok, canon + ".sysl"
	}
	return d, ok, canon
}
