//go:build verifov

package props

// C05 — import closure: each file once, cycles end, result independent of fetch timing.
// C06 — a failed read or bad file anywhere in the closure fails the compile cleanly.
//
// The real parse.Parser.Parse runs under the cooperative scheduler (sync.Mutex and errgroup
// in pkg/parse/parse.go are swapped for shims by a build overlay; the reader is the harness's
// and its ReadHashBranch is a scheduling point). For every import graph in the bound, ALL
// schedules of the retrieval phase are explored (state-pruned DFS), and every complete
// execution's observation is compared with a reference model computed from the text alone.

import (
	"bytes"
	"encoding/json"
	"errors"
	"fmt"
	"io"
	"os"
	"path"
	"runtime"
	"sort"
	"strings"
	"time"

	"github.com/sirupsen/logrus"
	"github.com/spf13/afero"

	"github.com/anz-bank/sysl/pkg/parse"
	"github.com/anz-bank/sysl/pkg/sysl"
	"github.com/anz-bank/sysl/pkg/syslutil"
	"github.com/anz-bank/sysl/pkg/verifrt"
	"verif/engine/core"
	"verif/engine/sched"
)

type c05 struct{}

func init() { core.Register(c05{}) }

func (c05) ID() string     { return "C05" }
func (c05) Level() string  { return "model_checking" }
func (c05) Binary() string { return "ov" }
func (c05) Rule() string {
	return "all import graphs on N files (ordered import lists without repetition, self loops, cycles, diamonds; up to relabelling of non-root files; every file reachable) x depth limits 0..N x spelling variants, and for each ALL schedules of the concurrent retrieval (claim and read points of every retrieval goroutine; state-pruned DFS on the real parse.Parser.Parse). Non-trivial = a case whose exploration contains at least one choice point with two or more enabled threads; distinct by (graph, limit, spelling)"
}
func (c05) Assumptions() []string {
	return []string{
		"sequentially consistent interleavings at the hooked points (mutex acquisition, reader call, errgroup spawn/join); code between points runs atomically, which is exact for this code because every shared access sits inside the mutex or after the join (a separate free-running -race pass watches for unsynchronised accesses: C07)",
		"state pruning: the global state key (every thread's position or result) determines the future, argued in DESIGN.md §3.2",
		"errgroup.Wait and goroutine start are treated as invisible transitions (independent of all others) and run with priority",
		"remote (git) retrieval is simulated by the reader at the level of names and versions",
	}
}
func (c05) CaseTimeout() time.Duration { return 15 * time.Minute }

type graphCase struct {
	N       int               `json:"n"`
	Imports [][]string        `json:"imports"` // per file: import statement targets as written
	Names   []string          `json:"names"`   // canonical file names (a.sysl ...)
	Root    string            `json:"root"`    // root resource as given to Parse
	Limit   int               `json:"limit"`
	Edges   [][]int           `json:"edges"`            // per file: indices of imported files (reference model)
	Faults  map[string]string `json:"faults,omitempty"` // canonical file -> fault kind (C06)
	Label   string            `json:"label"`
	Extra   map[string]string `json:"extra,omitempty"`   // explicit file contents (foreign cases)
	Procs   int               `json:"procs,omitempty"`   // GOMAXPROCS during the exploration (0 = the worker's own)
	NoCheck bool              `json:"nocheck,omitempty"` // Settings.NoDifferentVersionCheck (the --no-different-version-check option)
	Sep     string            `json:"sep,omitempty"`     // a line written between consecutive import statements
}

var fileLetters = []string{"a", "b", "c", "d", "e", "f"}

// enumGraphs: all graphs on n files, each with an ordered import list (no repetition) of length
// <= maxList, all files reachable from file 0, canonical under relabelling of files 1..n-1.
func enumGraphs(n, maxList int) [][][]int {
	var lists [][]int
	var rec func(cur []int)
	rec = func(cur []int) {
		lists = append(lists, append([]int{}, cur...))
		if len(cur) == maxList {
			return
		}
		for t := 0; t < n; t++ {
			dup := false
			for _, c := range cur {
				if c == t {
					dup = true
				}
			}
			if !dup {
				rec(append(cur, t))
			}
		}
	}
	rec(nil)
	sort.Slice(lists, func(i, j int) bool {
		if len(lists[i]) != len(lists[j]) {
			return len(lists[i]) < len(lists[j])
		}
		return fmt.Sprint(lists[i]) < fmt.Sprint(lists[j])
	})
	enc := func(g [][]int) string { return fmt.Sprint(g) }
	perms := permutations(n - 1)
	seen := map[string]bool{}
	var out [][][]int
	g := make([][]int, n)
	var build func(i int)
	build = func(i int) {
		if i == n {
			// reachability
			reach := map[int]bool{0: true}
			q := []int{0}
			for len(q) > 0 {
				x := q[0]
				q = q[1:]
				for _, y := range g[x] {
					if !reach[y] {
						reach[y] = true
						q = append(q, y)
					}
				}
			}
			if len(reach) != n {
				return
			}
			// canonical form: minimal encoding over relabellings of 1..n-1
			best := ""
			for _, p := range perms {
				m := make([]int, n)
				for k := 1; k < n; k++ {
					m[k] = p[k-1] + 1
				}
				h := make([][]int, n)
				for k := 0; k < n; k++ {
					l := make([]int, len(g[k]))
					for j, t := range g[k] {
						l[j] = m[t]
					}
					h[m[k]] = l
				}
				e := enc(h)
				if best == "" || e < best {
					best = e
				}
			}
			if seen[best] {
				return
			}
			seen[best] = true
			cp := make([][]int, n)
			for k := range g {
				cp[k] = append([]int{}, g[k]...)
			}
			out = append(out, cp)
			return
		}
		for _, l := range lists {
			g[i] = l
			build(i + 1)
		}
	}
	build(0)
	return out
}

func permutations(n int) [][]int {
	if n <= 0 {
		return [][]int{{}}
	}
	var out [][]int
	var rec func(cur []int, used []bool)
	rec = func(cur []int, used []bool) {
		if len(cur) == n {
			out = append(out, append([]int{}, cur...))
			return
		}
		for i := 0; i < n; i++ {
			if !used[i] {
				used[i] = true
				rec(append(cur, i), used)
				used[i] = false
			}
		}
	}
	rec(nil, make([]bool, n))
	return out
}

func mkGraphCase(g [][]int, limit int, spell func(from, to, k int) string, root string, label string) graphCase {
	n := len(g)
	gc := graphCase{N: n, Limit: limit, Edges: g, Root: root, Label: label}
	for i := 0; i < n; i++ {
		gc.Names = append(gc.Names, fileLetters[i]+".sysl")
		var imps []string
		for k, t := range g[i] {
			imps = append(imps, spell(i, t, k))
		}
		gc.Imports = append(gc.Imports, imps)
	}
	return gc
}

func plainSpell(from, to, k int) string { return fileLetters[to] }

var namedShapes4 = map[string][][]int{
	"diamond":         {{1, 2}, {3}, {3}, {}},
	"diamond-cycle":   {{1, 2}, {3}, {3}, {0}},
	"chain4":          {{1}, {2}, {3}, {}},
	"chain4-back":     {{1}, {2}, {3}, {1}},
	"long-short":      {{1, 3}, {2}, {3}, {}},
	"short-long":      {{3, 1}, {2}, {3}, {}},
	"fan3":            {{1, 2, 3}, {}, {}, {}},
	"fan3-cross":      {{1, 2, 3}, {2}, {3}, {1}},
	"complete-ish":    {{1, 2}, {2, 3}, {3, 0}, {0, 1}},
	"self-everywhere": {{0, 1}, {1, 2}, {2, 3}, {3}},
	"two-cycles":      {{1, 2}, {0}, {3}, {2}},
	"deep-shared":     {{1, 2}, {2}, {3}, {1}},
}

var namedShapes5 = map[string][][]int{
	"long-short-5": {{1, 2}, {4}, {3}, {4}, {}},  // root->{b,c}, b->e ; c->d->e
	"depth-defect": {{1, 2}, {4}, {3}, {4}, {0}}, // with a back edge from e
	"ladder":       {{1, 2}, {3}, {3, 4}, {4}, {}},
	"ring5":        {{1}, {2}, {3}, {4}, {0}},
	"star-back":    {{1, 2, 3}, {4}, {4}, {4}, {0}},
}

func sortedKeys(m map[string][][]int) []string {
	var ks []string
	for k := range m {
		ks = append(ks, k)
	}
	sort.Strings(ks)
	return ks
}

func c05Graphs(tier string) []graphCase {
	var out []graphCase
	addAllLimits := func(g [][]int, label string) {
		for limit := 0; limit <= len(g); limit++ {
			out = append(out, mkGraphCase(g, limit, plainSpell, "a.sysl", label))
		}
	}
	maxN, maxList := 3, 2
	if tier == "thorough" {
		maxN, maxList = 3, 3
	}
	for n := 1; n <= maxN; n++ {
		for i, g := range enumGraphs(n, maxList) {
			addAllLimits(g, fmt.Sprintf("all-n%d-%d", n, i))
		}
	}
	if tier == "thorough" {
		for i, g := range enumGraphs(4, 2) {
			addAllLimits(g, fmt.Sprintf("all-n4-%d", i))
		}
	}
	for _, k := range sortedKeys(namedShapes4) {
		addAllLimits(namedShapes4[k], k)
	}
	for _, k := range sortedKeys(namedShapes5) {
		addAllLimits(namedShapes5[k], k)
	}
	// spelling variants on small cyclic / diamond graphs
	spellings := []func(to string) string{
		func(t string) string { return t },
		func(t string) string { return "./" + t },
		func(t string) string { return "/" + t },
		func(t string) string { return "sub/../" + t },
		func(t string) string { return t + ".sysl" },
		func(t string) string { return "/./" + t },
	}
	roots := []string{"a.sysl", "a", "/a.sysl", "./a.sysl", "/a", "sub/../a.sysl"}
	shapes := [][][]int{{{1}, {0}}, {{1, 2}, {2}, {0}}, {{1, 2}, {3}, {3}, {}}, {{0}}}
	for si, g := range shapes {
		for ri, root := range roots {
			for s1 := range spellings {
				for s2 := range spellings {
					if tier != "thorough" && s1 != s2 && s1 != 0 && s2 != 0 {
						continue
					}
					sp := func(from, to, k int) string {
						if (from+k)%2 == 0 {
							return spellings[s1](fileLetters[to])
						}
						return spellings[s2](fileLetters[to])
					}
					out = append(out, mkGraphCase(g, 0, sp, root, fmt.Sprintf("spell-%d-r%d-%d-%d", si, ri, s1, s2)))
				}
			}
		}
	}
	return out
}

func (c05) Bounds(tier string) map[string]interface{} {
	if tier == "thorough" {
		return map[string]interface{}{"all_graphs_N<=3_lists<=3": true, "all_graphs_N=4_lists<=2": true, "named_shapes_N4": len(namedShapes4), "named_shapes_N5": len(namedShapes5), "limits": "0..N", "schedules": "all (state-pruned, unbounded)"}
	}
	return map[string]interface{}{"all_graphs_N<=3_lists<=2": true, "named_shapes_N4": len(namedShapes4), "named_shapes_N5": len(namedShapes5), "limits": "0..N", "schedules": "all (state-pruned, unbounded)"}
}

var c05RemoteCases func(tier string, emit func(string, interface{}))
var c05RunRemote func(c core.Case) core.Outcome
var c05PathsCases func(tier string, emit func(string, interface{}))
var c05RunPaths func(c core.Case) core.Outcome

func (c05) Cases(tier string, emit func(string, interface{})) {
	// the two small families first: under the thorough tier's dispatch deadline the 4-file graphs are what is cut
	if c05RemoteCases != nil {
		c05RemoteCases(tier, emit)
	}
	if c05PathsCases != nil {
		c05PathsCases(tier, emit)
	}
	for _, gc := range c05Graphs(tier) {
		emit("graph", gc)
	}
	// the named shapes again with the different-version check switched off (its own path through the claim logic)
	for _, shapes := range []map[string][][]int{namedShapes4, namedShapes5, {"dup-then-more": {{1, 2}, {}, {1, 3}, {4}, {}}}} {
		for _, k := range sortedKeys(shapes) {
			gc := mkGraphCase(shapes[k], 0, plainSpell, "a.sysl", k+" nocheck")
			gc.NoCheck = true
			emit("graph", gc)
		}
	}
	// layout of the import block: an empty line, a line of blanks, a comment at column 0 and an indented comment
	// between import statements
	for _, sh := range []string{"fan3", "fan3-cross", "diamond"} {
		for _, sep := range []string{"\n", "    \n", "\t\n", "# note\n", "    # note\n", "#\n"} {
			gc := mkGraphCase(namedShapes4[sh], 0, plainSpell, "a.sysl", fmt.Sprintf("%s sep=%q", sh, sep))
			gc.Sep = sep
			emit("graph", gc)
		}
	}
	// wide fans under GOMAXPROCS 1..4: logic that sizes its concurrency by the processor count must not
	// change the result (the scheduler runs one thread at a time whatever the value)
	for _, sh := range []struct {
		name string
		g    [][]int
	}{{"fan3", namedShapes4["fan3"]}, {"fan4", [][]int{{1, 2, 3, 4}, {}, {}, {}, {}}}, {"fan3-cross", namedShapes4["fan3-cross"]}, {"star-back", namedShapes5["star-back"]}} {
		for procs := 1; procs <= 4; procs++ {
			gc := mkGraphCase(sh.g, 0, plainSpell, "a.sysl", fmt.Sprintf("%s procs=%d", sh.name, procs))
			gc.Procs = procs
			emit("graph", gc)
		}
	}
}

func (c05) InitWorker() { logrus.SetOutput(io.Discard) }

// ---------------------------------------------------------------------------------------------
// harness reader

// yieldFs: the in-memory project tree; Open is the scheduling point of a retrieval ("read")
// and the place where read faults are injected. It sits under the real ChrootFs and the real
// reader stack (parse.NewReader -> remotefs -> filesystem), so the production path is driven.
type yieldFs struct {
	afero.Fs
	faults map[string]string
	reads  map[string]int
}

const projRoot = "/proj"

func canonName(p string) string {
	p = strings.ReplaceAll(p, `\`, "/")
	if i := strings.Index(p, "@"); i >= 0 {
		p = p[:i]
	}
	p = path.Clean("/" + p)
	p = strings.TrimPrefix(p, projRoot)
	return strings.TrimPrefix(p, "/")
}

var errInjected = errors.New("injected read failure")

func (y *yieldFs) Open(name string) (afero.File, error) {
	c := canonName(name)
	if strings.HasPrefix(c, ".sysl") {
		return y.Fs.Open(name)
	}
	verifrt.Yield("read", c)
	y.reads[c]++
	if y.faults[c] == "readerr" {
		return nil, fmt.Errorf("%w: %s", errInjected, name)
	}
	return y.Fs.Open(name)
}

func fileText(gc graphCase, i int) string {
	var b strings.Builder
	for k, im := range gc.Imports[i] {
		if k > 0 {
			b.WriteString(gc.Sep)
		}
		b.WriteString("import " + im + "\n")
	}
	up := strings.ToUpper(fileLetters[i])
	fmt.Fprintf(&b, "F%s:\n    ...\nS:\n    E%s:\n        ...\n", up, up)
	return b.String()
}

func buildFiles(gc graphCase) map[string]string {
	files := map[string]string{}
	if gc.Extra != nil {
		for k, v := range gc.Extra {
			files[k] = v
		}
		return files
	}
	for i := 0; i < gc.N; i++ {
		t := fileText(gc, i)
		switch gc.Faults[gc.Names[i]] {
		case "trunc":
			t = t[:strings.Index(t, "    ...")] + "    !ty"
		case "trunchdr":
			t += "Tail [~d" // cut inside the header of the file's last application: the error is located at end of file
		case "truncname":
			t += "Tail"
		case "trunccolon":
			t += "Tail [~db]:\n"
		case "badimport":
			t = "import zz !!\n" + t
		case "badbody":
			t += "    !type:\n        x <: <:\n"
		}
		files[gc.Names[i]] = t
	}
	return files
}

// reference model ------------------------------------------------------------------------------

// refClosure: included files (BFS distance < limit; limit 0 = all reachable) in DFS pre-order
// over text-ordered imports, each file once.
func refClosure(gc graphCase) []int {
	dist := map[int]int{0: 0}
	q := []int{0}
	for len(q) > 0 {
		x := q[0]
		q = q[1:]
		for _, y := range gc.Edges[x] {
			if _, ok := dist[y]; !ok {
				dist[y] = dist[x] + 1
				q = append(q, y)
			}
		}
	}
	inc := func(i int) bool { return gc.Limit <= 0 || dist[i] < gc.Limit }
	var order []int
	seen := map[int]bool{}
	var dfs func(i int)
	dfs = func(i int) {
		if seen[i] || !inc(i) {
			return
		}
		seen[i] = true
		order = append(order, i)
		for _, y := range gc.Edges[i] {
			dfs(y)
		}
	}
	dfs(0)
	return order
}

// ---------------------------------------------------------------------------------------------

type stdoutCapture struct {
	old *os.File
	r   *os.File
	w   *os.File
}

func captureStdout() *stdoutCapture {
	r, w, err := os.Pipe()
	if err != nil {
		panic(err)
	}
	c := &stdoutCapture{old: os.Stdout, r: r, w: w}
	os.Stdout = w
	return c
}
func (c *stdoutCapture) done() string {
	os.Stdout = c.old
	c.w.Close()
	var buf bytes.Buffer
	_, _ = io.Copy(&buf, c.r)
	c.r.Close()
	return buf.String()
}

type retrievalObs struct {
	Files  []string       `json:"files"`
	Err    string         `json:"err"`
	Reads  map[string]int `json:"reads"`
	NilMod bool           `json:"nilmod"`
}

func (o retrievalObs) String() string {
	var rs []string
	for k, v := range o.Reads {
		rs = append(rs, fmt.Sprintf("%s:%d", k, v))
	}
	sort.Strings(rs)
	return fmt.Sprintf("files=%v err=%q reads=%v nilmod=%v", o.Files, o.Err, rs, o.NilMod)
}

// retrievalBody: one execution of Parse (NoParsing unless full) as the single root thread.
func retrievalBody(gc graphCase, full bool, modOut **sysl.Module) sched.Body {
	return func(s *verifrt.Sched) func() string {
		mem := afero.NewMemMapFs()
		for n, txt := range buildFiles(gc) {
			_ = afero.WriteFile(mem, projRoot+"/"+n, []byte(txt), 0o644)
		}
		rd := &yieldFs{Fs: mem, faults: gc.Faults, reads: map[string]int{}}
		chroot := syslutil.NewChrootFs(rd, projRoot)
		var m *sysl.Module
		var err error
		var summary string
		var panicked string
		var root *verifrt.Thread
		root = s.Spawn(nil, func() {
			cap := captureStdout()
			defer func() {
				summary = cap.done()
				if r := recover(); r != nil {
					panicked = fmt.Sprint(r)
				}
			}()
			p := parse.NewParser()
			p.Set(parse.Settings{MaxImportDepth: gc.Limit, OperationSummary: true, NoParsing: !full, NoDifferentVersionCheck: gc.NoCheck})
			m, err = p.ParseFromFs(gc.Root, chroot)
		}, func(killed bool) {
			if killed {
				// restore stdout if the thread was killed mid-run
				root.Result = "killed"
				return
			}
			if err != nil {
				root.Result = "err:" + err.Error()
			} else {
				root.Result = "ok"
			}
		})
		return func() string {
			if modOut != nil {
				*modOut = m
			}
			o := retrievalObs{Reads: rd.reads, NilMod: m == nil}
			if panicked != "" {
				o.Err = "PANIC: " + panicked
			} else if err != nil {
				o.Err = err.Error()
			}
			var out struct {
				FilesProcessed []string `json:"filesProcessed"`
			}
			if summary != "" {
				_ = json.Unmarshal([]byte(summary), &out)
			}
			for _, f := range out.FilesProcessed {
				o.Files = append(o.Files, canonName(f))
			}
			return o.String()
		}
	}
}

func graphKey(gc graphCase) string {
	return fmt.Sprintf("%v|%v|root=%s|limit=%d|faults=%v|procs=%d|nocheck=%v|sep=%q", gc.Edges, gc.Imports, gc.Root, gc.Limit, gc.Faults, gc.Procs, gc.NoCheck, gc.Sep)
}

func (c05) Run(c core.Case) core.Outcome {
	if c.Kind == "remote" {
		return c05RunRemote(c)
	}
	if c.Kind == "paths" {
		return c05RunPaths(c)
	}
	var gc graphCase
	_ = json.Unmarshal(c.Data, &gc)
	if gc.Procs > 0 {
		old := runtime.GOMAXPROCS(gc.Procs)
		defer runtime.GOMAXPROCS(old)
	}
	var o core.Outcome
	e := sched.New(retrievalBody(gc, false, nil))
	e.Prune = true
	e.Explore()
	o.States = len(e.States)
	o.Transitions = e.Transitions
	o.Traces = e.Execs
	o.Capped = e.Capped
	o.Extra = map[string]int{"complete_executions": e.Complete, "executions": e.Execs}
	o.Class = "explored"
	if e.Transitions > len(e.States) || len(e.States) > 1 {
		// at least one point with a real choice
		if e.Execs > 1 {
			o.NonTrivial = core.Hash(graphKey(gc))
		}
	}
	detail := map[string]interface{}{"outcomes": e.Outcomes, "first_trace": e.FirstTrace, "label": gc.Label}
	fail := func(sig, msg string) core.Outcome {
		o.Violation = msg
		o.Sig = sig
		d, _ := json.Marshal(detail)
		o.Detail = d
		o.Class = "violation"
		return o
	}
	if e.Diverged != "" {
		o.Gap = "DIVERGED: " + e.Diverged
		return o
	}
	if len(e.Deadlocks) > 0 {
		return fail("deadlock", fmt.Sprintf("deadlock in retrieval of graph %s limit %d under schedule %v: %v", gc.Label, gc.Limit, e.Deadlocks[0], e.Outcomes))
	}
	if len(e.Horizons) > 0 {
		return fail("livelock", fmt.Sprintf("no termination within the horizon for graph %s limit %d under schedule %v", gc.Label, gc.Limit, e.Horizons[0]))
	}
	// expected observation from the reference model
	order := refClosure(gc)
	exp := retrievalObs{Reads: map[string]int{}}
	for _, i := range order {
		exp.Files = append(exp.Files, gc.Names[i])
		exp.Reads[gc.Names[i]] = 1
	}
	want := exp.String()
	var outs []string
	for k := range e.Outcomes {
		outs = append(outs, k)
	}
	sort.Strings(outs)
	detail["expected"] = want
	if len(outs) == 0 {
		o.Gap = "no complete execution"
		return o
	}
	if len(outs) != 1 {
		sig := "schedule-dependent"
		if gc.Limit > 0 && depthClaimExplains(gc, outs, want) {
			sig = "schedule-dependent|depth-limit-claim-order"
		}
		return fail(sig, fmt.Sprintf("graph %s %v root %s limit %d: %d different results over the schedules: %v (expected %s); schedules %v", gc.Label, gc.Imports, gc.Root, gc.Limit, len(outs), outs, want, e.FirstTrace))
	}
	if outs[0] != want {
		sig := "wrong-closure"
		got := outs[0]
		switch {
		case strings.Contains(got, ":2") || strings.Contains(got, ":3"):
			sig = "file-read-twice"
		case gc.Limit > 0:
			sig = "wrong-closure|limit"
		}
		if strings.HasPrefix(gc.Label, "spell-") {
			sig += "|spelling"
			if gc.Root != "a.sysl" && gc.Root != "a" {
				sig += "|root-spelled-" + strings.Map(func(r rune) rune {
					if r == 'a' {
						return 'X'
					}
					return r
				}, gc.Root)
			}
		}
		return fail(sig, fmt.Sprintf("graph %s %v root %s limit %d: result under every schedule is %s, expected %s", gc.Label, gc.Imports, gc.Root, gc.Limit, got, want))
	}
	// full compile under the default schedule: processing order visible in the model
	var mod *sysl.Module
	e2 := sched.New(retrievalBody(gc, true, &mod))
	x := e2.RunOne(nil, false)
	if x.Res.Deadlock || x.Res.Horizon {
		return fail("deadlock-full", "full compile did not terminate under the default schedule")
	}
	if mod == nil {
		return fail("full-compile-failed", fmt.Sprintf("graph %s: full compile failed: %s", gc.Label, x.Obs))
	}
	var gotOrder []string
	if s := mod.Apps["S"]; s != nil {
		for _, sc := range s.SourceContexts {
			gotOrder = append(gotOrder, canonName(sc.File))
		}
	}
	if fmt.Sprint(gotOrder) != fmt.Sprint(exp.Files) {
		return fail("merge-order", fmt.Sprintf("graph %s %v limit %d: shared app S was merged from files %v, expected %v", gc.Label, gc.Imports, gc.Limit, gotOrder, exp.Files))
	}
	for _, i := range order {
		app := mod.Apps["F"+strings.ToUpper(fileLetters[i])]
		if app == nil || len(app.SourceContexts) != 1 {
			n := -1
			if app != nil {
				n = len(app.SourceContexts)
			}
			return fail("contributes-once", fmt.Sprintf("graph %s %v: file %s contributed %d times", gc.Label, gc.Imports, gc.Names[i], n))
		}
	}
	if len(mod.Apps) != len(order)+1 {
		return fail("extra-apps", fmt.Sprintf("graph %s: %d apps, expected %d", gc.Label, len(mod.Apps), len(order)+1))
	}
	return o
}

// depthClaimExplains: every observed outcome is error-free, reads each file at most once, and its
// file list is a subsequence-by-set of the expected closure (files only go missing, never extra or
// doubled) — the footprint of a file being claimed first through a longer path under a depth limit.
func depthClaimExplains(gc graphCase, outs []string, want string) bool {
	parse := func(s string) (files []string, ok bool) {
		if !strings.Contains(s, `err=""`) || strings.Contains(s, ":2") {
			return nil, false
		}
		i := strings.Index(s, "files=[")
		j := strings.Index(s, "]")
		if i < 0 || j < i {
			return nil, false
		}
		return strings.Fields(s[i+7 : j]), true
	}
	wf, ok := parse(want)
	if !ok {
		return false
	}
	wset := map[string]bool{}
	for _, f := range wf {
		wset[f] = true
	}
	sawWant := false
	for _, o := range outs {
		fs, ok := parse(o)
		if !ok {
			return false
		}
		for _, f := range fs {
			if !wset[f] {
				return false
			}
		}
		if len(fs) == len(wf) {
			sawWant = true
		}
	}
	return sawWant
}
