//go:build verifov

package props

// C14, "views" family: a project with several views generated in one call. Differential oracle
// with no hand-written expectation: the diagram of a view generated together with another view
// must be byte-identical to the diagram of that view generated alone, for both generation orders
// (the order is Go map iteration order over the project's endpoints: owned through the MAPORD seam).

import (
	"encoding/json"
	"fmt"
	"io"

	"github.com/sirupsen/logrus"

	"github.com/anz-bank/sysl/pkg/cmdutils"
	"github.com/anz-bank/sysl/pkg/integrationdiagram"
	"github.com/anz-bank/sysl/pkg/parse"
	"github.com/anz-bank/sysl/pkg/sysl"
	"verif/engine/core"
)

type c14View struct{ seeds, excl, pass int }

func init() {
	c14ViewsCases = func(tier string, emit func(string, interface{})) {
		n := 3
		for g := 1; g < 1<<uint(len(c14Pairs(n))); g++ {
			emit("views", c14Case{N: n, Graph: g, Human: -1})
		}
	}
	c14RunViews = runC14Views
}

// mapOrderSelfTest: seeds 0 and 1 must give both orders of a two-entry map.
func mapOrderSelfTest() string {
	seen := map[string]bool{}
	for seed := uintptr(0); seed < 2; seed++ {
		verifMapControl(true, seed, 0)
		m := map[string]int{"v1": 1, "v2": 2}
		s := ""
		for k := range m {
			s += k
		}
		seen[s] = true
	}
	verifMapControl(true, 0, 0)
	if len(seen) != 2 {
		return fmt.Sprintf("MAPORD seam: seeds 0 and 1 give orders %v of a two-entry map, expected both", seen)
	}
	return ""
}

func runC14Views(c core.Case) core.Outcome {
	var cs c14Case
	_ = json.Unmarshal(c.Data, &cs)
	var o core.Outcome
	o.Class = "ok"
	if g := mapOrderSelfTest(); g != "" {
		o.Gap = g
		return o
	}
	src := c14Source(cs)
	base, err := parse.NewParser().ParseString(src)
	if err != nil {
		o.Gap = "graph source does not compile: " + err.Error()
		return o
	}
	apps := c14Apps[:cs.N]
	full := 1 << uint(cs.N)
	var views []c14View
	for seeds := 1; seeds < full; seeds++ {
		for excl := 0; excl < full; excl++ {
			if excl&seeds != 0 {
				continue
			}
			for pass := 0; pass < full; pass++ {
				if bitsSet(pass) > 1 {
					continue
				}
				views = append(views, c14View{seeds, excl, pass})
			}
		}
	}
	lg := logrus.New()
	lg.SetOutput(io.Discard)
	mkEp := func(name string, v c14View) *sysl.Endpoint {
		var stmts []*sysl.Statement
		for _, s := range subsetOf(apps, v.seeds) {
			stmts = append(stmts, &sysl.Statement{Stmt: &sysl.Statement_Action{Action: &sysl.Action{Action: s}}})
		}
		attrs := map[string]*sysl.Attribute{}
		if v.excl != 0 {
			attrs["exclude"] = strAttrArr(subsetOf(apps, v.excl))
		}
		if v.pass != 0 {
			attrs["passthrough"] = strAttrArr(subsetOf(apps, v.pass))
		}
		return &sysl.Endpoint{Name: name, Stmt: stmts, Attrs: attrs}
	}
	gen := func(eps map[string]*sysl.Endpoint, vi int) (map[string]string, string) {
		m := &sysl.Module{Apps: map[string]*sysl.Application{}}
		for k, v := range base.Apps {
			m.Apps[k] = v
		}
		m.Apps["Proj"] = &sysl.Application{Name: &sysl.AppName{Part: []string{"Proj"}}, Endpoints: eps}
		var out map[string]string
		crash := ""
		func() {
			defer func() {
				if r := recover(); r != nil {
					crash = fmt.Sprint(r)
				}
			}()
			out, _ = integrationdiagram.GenerateIntegrations(&cmdutils.CmdContextParamIntgen{Project: "Proj", Output: "%(epname)", Clustered: vi == 1, EPA: vi == 2}, m, lg)
		}()
		return out, crash
	}
	kinds := []string{"plain", "clustered", "epa"}
	describe := func(v c14View) string {
		return fmt.Sprintf("{lists %v exclude %v passthrough %v}", subsetOf(apps, v.seeds), subsetOf(apps, v.excl), subsetOf(apps, v.pass))
	}
	differing := 0
	for vi := range kinds {
		alone := map[[2]int]string{} // (view index, name index) -> text
		single := func(i, nm int) string {
			if t, ok := alone[[2]int{i, nm}]; ok {
				return t
			}
			name := []string{"v1", "v2"}[nm]
			verifMapControl(true, 0, 0)
			out, _ := gen(map[string]*sysl.Endpoint{name: mkEp(name, views[i])}, vi)
			alone[[2]int{i, nm}] = out[name]
			return out[name]
		}
		for i := range views {
			for j := range views {
				if i == j {
					continue
				}
				a1, a2 := single(i, 0), single(j, 1)
				if a1 != a2 {
					differing++
				}
				for seed := uintptr(0); seed < 2; seed++ {
					verifMapControl(true, seed, 0)
					out, crash := gen(map[string]*sysl.Endpoint{"v1": mkEp("v1", views[i]), "v2": mkEp("v2", views[j])}, vi)
					verifMapControl(true, 0, 0)
					o.Traces++
					bad := ""
					switch {
					case crash != "":
						bad = "generation panicked: " + crash
					case out["v1"] != a1:
						bad = "view v1 " + describe(views[i]) + " differs: " + firstDiff(a1, out["v1"])
					case out["v2"] != a2:
						bad = "view v2 " + describe(views[j]) + " differs: " + firstDiff(a2, out["v2"])
					}
					if bad != "" {
						o.Class = "violation"
						o.Sig = "views-not-independent|" + kinds[vi]
						o.Violation = fmt.Sprintf("apps/calls:\n%sproject with views v1 %s and v2 %s, %s diagram, generation order %d: a view's diagram differs from the diagram of the same view generated alone: %s", src, describe(views[i]), describe(views[j]), kinds[vi], seed, bad)
						return o
					}
				}
			}
		}
	}
	o.Extra = map[string]int{"view_pairs": len(views) * (len(views) - 1) * 3, "view_pairs_with_different_diagrams": differing}
	if differing > 0 {
		o.NonTrivial = fmt.Sprintf("views|%d", cs.Graph)
	}
	return o
}
