//go:build verifov

package props

// C05, remote family: versioned remote-style import paths. The real remotefs reader stack is
// used with a fake retriever (the git retriever needs a network): its Retrieve is the scheduling
// point of a remote read and answers from an in-memory repository, echoing the requested version.

import (
	"context"
	"encoding/json"
	"fmt"
	"sort"
	"strings"

	"github.com/anz-bank/golden-retriever/reader/filesystem"
	"github.com/anz-bank/golden-retriever/reader/remotefs"
	"github.com/anz-bank/golden-retriever/retriever"
	"github.com/spf13/afero"

	"github.com/anz-bank/sysl/pkg/parse"
	"github.com/anz-bank/sysl/pkg/sysl"
	"github.com/anz-bank/sysl/pkg/syslutil"
	"github.com/anz-bank/sysl/pkg/verifrt"
	"verif/engine/core"
	"verif/engine/sched"
)

type remoteCase struct {
	Shape   string `json:"shape"`
	VA      string `json:"va"` // version written by a.sysl
	VB      string `json:"vb"` // version written by b.sysl
	NoCheck bool   `json:"nocheck"`
}

type fakeRetriever struct {
	files map[string]string // "repo/path" -> content
	reads map[string]int
}

func (f *fakeRetriever) Retrieve(ctx context.Context, r *retriever.Resource) ([]byte, error) {
	key := r.Repo + "/" + r.Filepath
	verifrt.Yield("read", key)
	f.reads[key]++
	if r.Repo != remoteRepo {
		// a file of ANOTHER repository: the version it is requested at is part of the observation (it must be the
		// one its import statement names - none - whatever the version of the importing file)
		f.reads[key+"@"+r.Ref.Name()]++
	}
	c, ok := f.files[key]
	if !ok {
		return nil, fmt.Errorf("no such remote file %s", key)
	}
	if r.Ref.Name() == "HEAD" {
		r.Ref.SetName("main")
	}
	return []byte(c), nil
}

const remoteRepo = "github.com/o/r"

func atv(v string) string {
	if v == "" {
		return ""
	}
	return "@" + v
}

func remoteFiles(rc remoteCase) (local map[string]string, remote map[string]string) {
	x := "//" + remoteRepo + "/x"
	local = map[string]string{}
	remote = map[string]string{
		"github.com/o/other/w.sysl": "RW:\n    ...\nS:\n    EW:\n        ...\n",
		remoteRepo + "/x.sysl":      "import y\nimport /sub/z\nimport //github.com/o/other/w\nRX:\n    ...\nS:\n    EX:\n        ...\n",
		remoteRepo + "/y.sysl":      "import /x\nRY:\n    ...\nS:\n    EY:\n        ...\n",
		remoteRepo + "/sub/z.sysl":  "import ../y\nRZ:\n    ...\nS:\n    EZ:\n        ...\n",
	}
	switch rc.Shape {
	case "one":
		local["a.sysl"] = "import " + x + atv(rc.VA) + "\nFA:\n    ...\nS:\n    EA:\n        ...\n"
	case "two":
		local["a.sysl"] = "import " + x + atv(rc.VA) + "\nimport b\nFA:\n    ...\nS:\n    EA:\n        ...\n"
		local["b.sysl"] = "import " + x + atv(rc.VB) + "\nFB:\n    ...\nS:\n    EB:\n        ...\n"
	case "two-rev":
		local["a.sysl"] = "import b\nimport " + x + atv(rc.VA) + "\nFA:\n    ...\nS:\n    EA:\n        ...\n"
		local["b.sysl"] = "import //" + remoteRepo + "/y" + atv(rc.VB) + "\nFB:\n    ...\nS:\n    EB:\n        ...\n"
	}
	return
}

func normVer(v string) string {
	switch v {
	case "main", "master", "develop":
		return ""
	}
	return v
}

func remoteBody(rc remoteCase) sched.Body {
	return func(s *verifrt.Sched) func() string {
		local, remote := remoteFiles(rc)
		mem := afero.NewMemMapFs()
		for n, t := range local {
			_ = afero.WriteFile(mem, projRoot+"/"+n, []byte(t), 0o644)
		}
		yfs := &yieldFs{Fs: mem, reads: map[string]int{}}
		fr := &fakeRetriever{files: remote, reads: map[string]int{}}
		rd := remotefs.NewWithRetriever(filesystem.New(syslutil.NewChrootFs(yfs, projRoot)), fr)
		var m *sysl.Module
		var err error
		var root *verifrt.Thread
		root = s.Spawn(nil, func() {
			p := parse.NewParser()
			p.Set(parse.Settings{NoDifferentVersionCheck: rc.NoCheck})
			m, err = p.Parse("a.sysl", rd)
		}, func(killed bool) {
			if err != nil {
				root.Result = "err"
			} else {
				root.Result = "ok"
			}
		})
		return func() string {
			var apps []string
			var order []string
			if m != nil {
				for k := range m.Apps {
					apps = append(apps, k)
				}
				sort.Strings(apps)
				for _, sc := range m.Apps["S"].GetSourceContexts() {
					f := sc.GetFile()
					if i := strings.Index(f, "@"); i >= 0 {
						f = f[:i]
					}
					order = append(order, strings.TrimPrefix(f, "//"+remoteRepo+"/"))
				}
			}
			var reads []string
			for k, v := range yfs.reads {
				reads = append(reads, fmt.Sprintf("%s:%d", k, v))
			}
			for k, v := range fr.reads {
				reads = append(reads, fmt.Sprintf("%s:%d", strings.TrimPrefix(k, remoteRepo+"/"), v))
			}
			sort.Strings(reads)
			errClass := ""
			if err != nil {
				switch {
				case strings.Contains(err.Error(), "different versions"):
					errClass = "different-versions"
				default:
					errClass = "other: " + err.Error()
				}
			}
			return fmt.Sprintf("apps=%v order=%v err=%s reads=%v", apps, order, errClass, reads)
		}
	}
}

func init() {
	c05RemoteCases = func(tier string, emit func(string, interface{})) {
		vers := []string{"", "v1", "v2", "main"}
		for _, va := range vers {
			emit("remote", remoteCase{Shape: "one", VA: va})
			for _, vb := range vers {
				for _, nc := range []bool{false, true} {
					emit("remote", remoteCase{Shape: "two", VA: va, VB: vb, NoCheck: nc})
					emit("remote", remoteCase{Shape: "two-rev", VA: va, VB: vb, NoCheck: nc})
				}
			}
		}
	}
	c05RunRemote = runRemote
}

func runRemote(c core.Case) core.Outcome {
	var rc remoteCase
	_ = json.Unmarshal(c.Data, &rc)
	var o core.Outcome
	e := sched.New(remoteBody(rc))
	e.Prune = true
	e.Explore()
	o.States, o.Transitions, o.Traces, o.Capped = len(e.States), e.Transitions, e.Execs, e.Capped
	o.Class = "explored"
	if e.Execs > 1 {
		o.NonTrivial = fmt.Sprintf("remote|%+v", rc)
	}
	desc := fmt.Sprintf("remote shape %s a@%q b@%q nocheck=%v", rc.Shape, rc.VA, rc.VB, rc.NoCheck)
	fail := func(sig, msg string) core.Outcome {
		o.Class = "violation"
		o.Violation = desc + ": " + msg
		o.Sig = "remote|" + sig
		return o
	}
	if e.Diverged != "" {
		o.Gap = e.Diverged
		return o
	}
	if len(e.Deadlocks) > 0 || len(e.Horizons) > 0 {
		return fail("deadlock", fmt.Sprint(e.Outcomes))
	}
	var outs []string
	for k := range e.Outcomes {
		outs = append(outs, k)
	}
	sort.Strings(outs)
	// expectation
	conflict := false
	if rc.Shape != "one" && !rc.NoCheck {
		// the same remote file is reached with the versions written in a and b (files inside the
		// repository inherit the version of their importer)
		conflict = normVer(rc.VA) != normVer(rc.VB)
	}
	if conflict {
		for _, out := range outs {
			if !strings.Contains(out, "err=different-versions") {
				return fail("version-conflict-not-reported", fmt.Sprintf("the remote file is imported in two versions but some schedule gives %s (all: %v)", out, outs))
			}
		}
		return o
	}
	if len(outs) != 1 {
		return fail("schedule-dependent", fmt.Sprintf("%d different results over the schedules: %v", len(outs), outs))
	}
	got := outs[0]
	if strings.Contains(got, "err=other") || strings.Contains(got, "err=different") {
		return fail("unexpected-error", got)
	}
	wantApps := map[string]string{"one": "[FA RW RX RY RZ S]", "two": "[FA FB RW RX RY RZ S]", "two-rev": "[FA FB RW RX RY RZ S]"}[rc.Shape]
	if !strings.Contains(got, "github.com/o/other/w.sysl@HEAD:1") && !strings.Contains(got, "github.com/o/other/w.sysl@:1") && !strings.Contains(got, "github.com/o/other/w.sysl@main:1") {
		return fail("other-repo-version", fmt.Sprintf("the unversioned import of another repository's file inside the remote file was not requested at its default version: %s", got))
	}
	if !strings.Contains(got, "apps="+wantApps) {
		return fail("wrong-closure", fmt.Sprintf("result %s, expected applications %s", got, wantApps))
	}
	if strings.Contains(got, ":2") || strings.Contains(got, ":3") {
		return fail("file-read-twice", got)
	}
	wantOrder := map[string]string{
		"one":     "[a.sysl x.sysl y.sysl sub/z.sysl //github.com/o/other/w.sysl]",
		"two":     "[a.sysl x.sysl y.sysl sub/z.sysl //github.com/o/other/w.sysl b.sysl]",
		"two-rev": "[a.sysl b.sysl y.sysl x.sysl sub/z.sysl //github.com/o/other/w.sysl]",
	}[rc.Shape]
	if !strings.Contains(got, "order="+wantOrder) {
		return fail("merge-order", fmt.Sprintf("result %s, expected merge order %s", got, wantOrder))
	}
	return o
}
