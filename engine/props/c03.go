package props

// C03 — layout does not change meaning. Metamorphic, exhaustive within a deviation bound:
// every corpus/generated seed x every global re-indentation x at most one (thorough: two on
// small seeds) local insertion at EVERY position. Oracle: acceptance preserved and models
// proto.Equal after clearing source contexts.

import (
	"encoding/json"
	"fmt"
	"io"
	"os"
	"path/filepath"
	"sort"
	"strings"
	"time"

	"github.com/sirupsen/logrus"
	"github.com/spf13/afero"
	"google.golang.org/protobuf/proto"
	"google.golang.org/protobuf/reflect/protoreflect"

	"github.com/anz-bank/sysl/pkg/loader"
	"github.com/anz-bank/sysl/pkg/sysl"
	"verif/engine/core"
	"verif/engine/gen"
)

type c03 struct{}

func init() { core.Register(c03{}) }

func (c03) ID() string    { return "C03" }
func (c03) Level() string { return "exploration" }
func (c03) Rule() string {
	return "seeds = every .sysl file under /repo that compiles (in place, root /repo or its own directory) + generated seeds; transformations = indent scale x2 x3 (and exact division), tab rule T(o) o=0..3 (keep o leading spaces, turn each following run of four into a tab), a blank line before EVERY line (and after the last), a whole-line comment before EVERY declaration line at that line's indentation and at column 0 before top-level declarations; global x <=1 local deviation at every position (thorough: whole corpus, and <=2 local deviations on small seeds). Non-trivial = transformed text differs from the seed and the seed compiles; distinct by (seed, transformation)"
}
func (c03) Assumptions() []string {
	return []string{
		"comments are inserted only before lines that start a declaration or statement (not inside multi-line annotation text, bracketed attribute lists continued over lines, or expression blocks of views)",
		"imports of corpus files are read unmodified from disk; only the root file is transformed",
	}
}
func (c03) CaseTimeout() time.Duration { return 120 * time.Second }
func (c03) InitWorker()                { logrus.SetOutput(io.Discard) }

type c03Case struct {
	File string  `json:"file"` // path under /repo, or "gen:<n>"
	Ops  []layOp `json:"ops"`
}
type layOp struct {
	Op  string `json:"op"` // scale, div, tab, blank, comment, comment0
	Arg int    `json:"arg"`
}

func (c03) Bounds(tier string) map[string]interface{} {
	if tier == "thorough" {
		return map[string]interface{}{"corpus": "all compiling .sysl files", "local_deviations": "1 everywhere, 2 on seeds <= 25 lines", "global": "scale 2,3, div 2,4, tab 0..3"}
	}
	return map[string]interface{}{"corpus": "locals: generated seeds and compiling .sysl files <= 15 lines; globals: <= 150 lines", "local_deviations": "1 at every position", "global": "scale 2,3, div 2,4, tab 0..3"}
}

func repoSyslFiles() []string {
	var out []string
	_ = filepath.Walk("/repo", func(p string, info os.FileInfo, err error) error {
		if err != nil {
			return nil
		}
		if info.IsDir() && (info.Name() == ".git" || info.Name() == "node_modules") {
			return filepath.SkipDir
		}
		if !info.IsDir() && strings.HasSuffix(p, ".sysl") {
			out = append(out, p)
		}
		return nil
	})
	sort.Strings(out)
	return out
}

func seedText(file string) (string, bool) {
	if strings.HasPrefix(file, "gen:") {
		var n int
		fmt.Sscanf(file, "gen:%d", &n)
		if n < len(gen.Seeds) {
			return gen.Seeds[n], true
		}
		return "", false
	}
	b, err := os.ReadFile(file)
	if err != nil {
		return "", false
	}
	return string(b), true
}

// declLine: the line starts a declaration or statement (candidate position for a comment).
func commentPositions(lines []string) []int {
	var out []int
	inBracket := 0
	inView := -1 // indent of the enclosing !view
	docIndent := -1
	for i, l := range lines {
		t := strings.TrimSpace(l)
		ind := len(l) - len(strings.TrimLeft(l, " \t"))
		if inView >= 0 && t != "" && ind <= inView {
			inView = -1
		}
		if docIndent >= 0 && t != "" && ind <= docIndent {
			docIndent = -1
		}
		ok := t != "" && inBracket == 0 && inView < 0 && docIndent < 0 && !strings.HasPrefix(t, "|") && !strings.HasPrefix(t, "#")
		if ok {
			out = append(out, i)
		}
		if strings.HasPrefix(t, "!view") {
			inView = ind
		}
		if strings.HasSuffix(t, "=:") {
			docIndent = ind
		}
		if !strings.HasPrefix(t, "#") && !strings.HasPrefix(t, "|") {
			inBracket += strings.Count(stripQuoted(t), "[") - strings.Count(stripQuoted(t), "]")
			if inBracket < 0 {
				inBracket = 0
			}
		}
	}
	return out
}

func stripQuoted(s string) string {
	var b strings.Builder
	q := byte(0)
	for i := 0; i < len(s); i++ {
		c := s[i]
		if q != 0 {
			if c == '\\' {
				i++
				continue
			}
			if c == q {
				q = 0
			}
			continue
		}
		if c == '"' || c == '\'' {
			q = c
			continue
		}
		b.WriteByte(c)
	}
	return b.String()
}

func splitLines(s string) []string {
	ls := strings.SplitAfter(s, "\n")
	if len(ls) > 0 && ls[len(ls)-1] == "" {
		ls = ls[:len(ls)-1]
	}
	return ls
}

func indentWidth(l string) (w int, rest string) {
	i := 0
	for i < len(l) && (l[i] == ' ' || l[i] == '\t') {
		if l[i] == ' ' {
			w++
		} else {
			w += 4
		}
		i++
	}
	return w, l[i:]
}

// inString[i]: line i starts inside a quoted string that was opened on an earlier line
// (its leading whitespace is string content, not indentation).
func inStringLines(lines []string) []bool {
	out := make([]bool, len(lines))
	q := byte(0)
	for i, l := range lines {
		out[i] = q != 0
		t := strings.TrimSpace(l)
		if q == 0 && (strings.HasPrefix(t, "#") || strings.HasPrefix(t, "|")) {
			continue
		}
		for j := 0; j < len(l); j++ {
			c := l[j]
			if q != 0 {
				if c == '\\' {
					j++
				} else if c == q {
					q = 0
				}
			} else if c == '"' || c == '\'' {
				q = c
			} else if c == '#' && j > 0 && l[j-1] == ' ' {
				break
			}
		}
	}
	return out
}

func applyOps(text string, ops []layOp) (string, bool) {
	lines := splitLines(text)
	for _, op := range ops {
		switch op.Op {
		case "scale", "div", "tab":
			inStr := inStringLines(lines)
			for i, l := range lines {
				if strings.TrimSpace(l) == "" || inStr[i] {
					continue
				}
				w, rest := indentWidth(l)
				switch op.Op {
				case "scale":
					lines[i] = strings.Repeat(" ", w*op.Arg) + rest
				case "div":
					if w%op.Arg != 0 {
						return "", false
					}
					lines[i] = strings.Repeat(" ", w/op.Arg) + rest
				case "tab":
					keep := op.Arg
					if keep > w {
						keep = w
					}
					r := w - keep
					lines[i] = strings.Repeat(" ", keep) + strings.Repeat("\t", r/4) + strings.Repeat(" ", r%4) + rest
				}
			}
		case "blank", "blankws":
			if op.Arg > len(lines) {
				return "", false
			}
			if op.Arg < len(lines) && inStringLines(lines)[op.Arg] {
				return "", false // inside a multi-line string literal a blank line is content, not layout
			}
			if op.Arg == len(lines) && len(lines) > 0 && !strings.HasSuffix(lines[len(lines)-1], "\n") {
				lines[len(lines)-1] += "\n"
			}
			nl := append([]string{}, lines[:op.Arg]...)
			if op.Op == "blankws" {
				nl = append(nl, "    \t\n") // a line of blanks only
			} else {
				nl = append(nl, "\n")
			}
			lines = append(nl, lines[op.Arg:]...)
		case "comment", "comment0", "commentE", "commentE0", "commentI":
			if op.Arg >= len(lines) {
				return "", false
			}
			if inStringLines(lines)[op.Arg] {
				return "", false // inside a multi-line string literal
			}
			l := lines[op.Arg]
			pre := l[:len(l)-len(strings.TrimLeft(l, " \t"))]
			if strings.HasSuffix(op.Op, "0") {
				pre = ""
			}
			if op.Op == "commentI" {
				pre = "    "
			}
			txt := "# inserted comment: x <- y [z]\n"
			if strings.HasPrefix(op.Op, "commentE") {
				txt = "#\n"
			}
			nl := append([]string{}, lines[:op.Arg]...)
			nl = append(nl, pre+txt)
			lines = append(nl, lines[op.Arg:]...)
		}
	}
	return strings.Join(lines, ""), true
}

func (c03) Cases(tier string, emit func(string, interface{})) {
	full := tier == "thorough"
	globals := [][]layOp{{}, {{"scale", 2}}, {{"scale", 3}}, {{"div", 2}}, {{"div", 4}}, {{"tab", 0}}, {{"tab", 1}}, {{"tab", 2}}, {{"tab", 3}}}
	var files []string
	for i := range gen.Seeds {
		files = append(files, fmt.Sprintf("gen:%d", i))
	}
	files = append(files, repoSyslFiles()...)
	for _, f := range files {
		txt, ok := seedText(f)
		if !ok {
			continue
		}
		lines := splitLines(txt)
		isGen := strings.HasPrefix(f, "gen:")
		small := len(lines) <= 15 || isGen
		// global transformations alone
		for _, g := range globals[1:] {
			if !full && len(lines) > 150 {
				break
			}
			if _, ok := applyOps(txt, g); ok {
				emit("global", c03Case{File: f, Ops: g})
			}
		}
		if !full && !small {
			continue
		}
		var locals []layOp
		for i := 0; i <= len(lines); i++ {
			locals = append(locals, layOp{"blank", i}, layOp{"blankws", i})
		}
		for _, i := range commentPositions(lines) {
			locals = append(locals, layOp{"comment", i}, layOp{"commentE", i})
			if w, _ := indentWidth(lines[i]); w == 0 && strings.HasPrefix(strings.TrimSpace(lines[i]), "import ") {
				locals = append(locals, layOp{"commentI", i}) // an indented comment line inside the import block
			}
			if w, _ := indentWidth(lines[i]); w == 0 {
				continue
			}
			locals = append(locals, layOp{"comment0", i}, layOp{"commentE0", i})
		}
		for _, l := range locals {
			emit("local", c03Case{File: f, Ops: []layOp{l}})
		}
		// global x local (locals first: indices refer to the untransformed text)
		if isGen || full && len(lines) <= 25 {
			for _, g := range globals[1:] {
				if _, ok := applyOps(txt, g); !ok {
					continue
				}
				for _, l := range locals {
					emit("global+local", c03Case{File: f, Ops: append([]layOp{l}, g...)})
				}
			}
		}
		if full && (isGen || len(lines) <= 14) {
			// (pairs on every file of <= 25 lines are 356 k cases: with the rest, more than the 40 minute deadline)
			for a := 0; a < len(locals); a++ {
				for b := a; b < len(locals); b++ {
					// apply the later position first so that indices stay valid
					emit("local2", c03Case{File: f, Ops: []layOp{locals[b], locals[a]}})
				}
			}
		}
	}
}

// ---- compile helpers

type cowRoot struct {
	root, module string
}

var c03SeedCache = map[string]*struct {
	m    *sysl.Module
	root cowRoot
	ok   bool
}{}

func compileAt(root, module, text string) (*sysl.Module, error) {
	layer := afero.NewMemMapFs()
	full := filepath.Join(root, module)
	_ = layer.MkdirAll(filepath.Dir(full), 0o755)
	_ = afero.WriteFile(layer, full, []byte(text), 0o644)
	if strings.HasPrefix(root, "/nonexistent-verif-root") {
		for n, t := range gen.SeedCompanions {
			_ = layer.MkdirAll(filepath.Dir(filepath.Join(root, n)), 0o755)
			_ = afero.WriteFile(layer, filepath.Join(root, n), []byte(t), 0o644)
		}
	}
	fs := afero.NewCopyOnWriteFs(afero.NewReadOnlyFs(afero.NewOsFs()), layer)
	lg := logrus.New()
	lg.SetOutput(io.Discard)
	m, _, err := loader.LoadSyslModule(root, module, fs, lg)
	return m, err
}

func compileSeed(file, text string) (*sysl.Module, cowRoot, bool) {
	if c, ok := c03SeedCache[file]; ok {
		return c.m, c.root, c.ok
	}
	var cands []cowRoot
	if strings.HasPrefix(file, "gen:") {
		cands = []cowRoot{{"/nonexistent-verif-root", "seed.sysl"}}
	} else {
		rel, _ := filepath.Rel("/repo", file)
		cands = []cowRoot{{"/repo", rel}, {filepath.Dir(file), filepath.Base(file)}}
	}
	e := &struct {
		m    *sysl.Module
		root cowRoot
		ok   bool
	}{}
	for _, c := range cands {
		func() {
			defer func() { _ = recover() }()
			m, err := compileAt(c.root, c.module, text)
			if err == nil && m != nil && !e.ok {
				e.m, e.root, e.ok = m, c, true
			}
		}()
		if e.ok {
			break
		}
	}
	c03SeedCache[file] = e
	return e.m, e.root, e.ok
}

// clearSourceContexts removes every source_context / source_contexts field, recursively.
func clearSourceContexts(m protoreflect.Message) {
	m.Range(func(fd protoreflect.FieldDescriptor, v protoreflect.Value) bool {
		name := string(fd.Name())
		if name == "source_context" || name == "source_contexts" {
			m.Clear(fd)
			return true
		}
		switch {
		case fd.IsMap():
			if fd.MapValue().Kind() == protoreflect.MessageKind {
				v.Map().Range(func(_ protoreflect.MapKey, mv protoreflect.Value) bool {
					clearSourceContexts(mv.Message())
					return true
				})
			}
		case fd.IsList():
			if fd.Kind() == protoreflect.MessageKind {
				l := v.List()
				for i := 0; i < l.Len(); i++ {
					clearSourceContexts(l.Get(i).Message())
				}
			}
		case fd.Kind() == protoreflect.MessageKind:
			clearSourceContexts(v.Message())
		}
		return true
	})
}

func stripped(m *sysl.Module) *sysl.Module {
	c := proto.Clone(m).(*sysl.Module)
	clearSourceContexts(c.ProtoReflect())
	return c
}

func (c03) Run(c core.Case) core.Outcome {
	var cs c03Case
	_ = json.Unmarshal(c.Data, &cs)
	var o core.Outcome
	txt, ok := seedText(cs.File)
	if !ok {
		o.Class = "seed-unreadable"
		return o
	}
	m0, root, ok := compileSeed(cs.File, txt)
	if !ok {
		o.Class = "seed-does-not-compile"
		return o
	}
	t, ok := applyOps(txt, cs.Ops)
	if !ok {
		o.Class = "transformation-not-applicable"
		return o
	}
	if t == txt {
		o.Class = "identity"
		return o
	}
	var m1 *sysl.Module
	var err error
	var crash interface{}
	func() {
		defer func() { crash = recover() }()
		m1, err = compileAt(root.root, root.module, t)
	}()
	o.NonTrivial = core.Hash(cs.File + fmt.Sprint(cs.Ops))
	desc := fmt.Sprintf("%s under %v", cs.File, cs.Ops)
	switch {
	case crash != nil:
		o.Class = "crash"
		o.Violation = fmt.Sprintf("%s: transformed text crashes the compiler: %v", desc, crash)
		o.Sig = "crash|" + opsSig(cs.Ops)
	case err != nil:
		o.Class = "rejected"
		o.Violation = fmt.Sprintf("%s: the seed compiles but the transformed text is rejected: %v", desc, err)
		o.Sig = "rejected|" + opsSig(cs.Ops)
	default:
		a, b := stripped(m0), stripped(m1)
		if !proto.Equal(a, b) {
			o.Class = "model-differs"
			o.Violation = fmt.Sprintf("%s: compiled model differs (ignoring source locations): %s", desc, protoDiff(a, b))
			o.Sig = "differs|" + opsSig(cs.Ops)
		} else {
			o.Class = "equal"
		}
	}
	if o.Violation != "" {
		d, _ := json.Marshal(map[string]string{"transformed": t})
		o.Detail = d
	}
	return o
}

func opsSig(ops []layOp) string {
	var s []string
	for _, o := range ops {
		if o.Op == "blank" || strings.HasPrefix(o.Op, "comment") {
			s = append(s, o.Op)
		} else {
			s = append(s, fmt.Sprintf("%s%d", o.Op, o.Arg))
		}
	}
	return strings.Join(s, "+")
}

func protoDiff(a, b proto.Message) string {
	ta := strings.Split(prototextString(a), "\n")
	tb := strings.Split(prototextString(b), "\n")
	for i := 0; i < len(ta) && i < len(tb); i++ {
		if ta[i] != tb[i] {
			lo := i - 3
			if lo < 0 {
				lo = 0
			}
			return fmt.Sprintf("first difference at line %d: %q vs %q (context %q)", i, ta[i], tb[i], ta[lo:i])
		}
	}
	return fmt.Sprintf("lengths %d vs %d", len(ta), len(tb))
}
