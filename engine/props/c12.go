package props

// C12 — OpenAPI export is a valid document that carries every type and endpoint.

import (
	"context"
	"encoding/json"
	"fmt"
	"io"
	"runtime/debug"
	"sort"
	"strings"
	"time"

	"github.com/getkin/kin-openapi/openapi3"
	"github.com/ghodss/yaml"
	"github.com/go-openapi/spec"
	"github.com/sirupsen/logrus"

	"github.com/anz-bank/sysl/pkg/exporter"
	"github.com/anz-bank/sysl/pkg/parse"
	"github.com/anz-bank/sysl/pkg/sysl"
	"github.com/anz-bank/sysl/pkg/syslutil"
	"github.com/anz-bank/sysl/pkg/syslwrapper"
	"verif/engine/core"
)

type c12 struct{}

func init() { core.Register(c12{}) }

func (c12) ID() string     { return "C12" }
func (c12) Level() string  { return "exploration" }
func (c12) Binary() string { return "ov" } // map iteration order pinned (export walks maps; C19 varies the order)
func (c12) Rule() string {
	return "REST applications: a type with 2-4 fields, each from a descriptor alphabet (8 primitives x optional x sequence, local reference, optional / sequence of reference, self reference, mutual recursion through a second type), an enum, and endpoints with path / query (1..3) / header / body parameters and typed returns (ok <: T, 200 <: sequence of T, 404 <: Error); x {openapi3, swagger} x {yaml, json}. Non-trivial = document that loads; distinct by (model, format)"
}
func (c12) Assumptions() []string {
	return []string{
		"applications carry a version attribute (a document without info.version is not a valid OpenAPI document; the attribute is part of the exportable subset)",
		"validity: OpenAPI 3 documents are loaded and validated with kin-openapi; Swagger 2 documents are loaded with go-openapi/spec (no validator for 2.0 is available offline)",
		"the re-import sub-check runs on one model per family for OpenAPI 3 (its importer costs about 10 s per document)",
	}
}
func (c12) CaseTimeout() time.Duration { return 5 * time.Minute }
func (c12) InitWorker() {
	logrus.SetOutput(io.Discard)
	debug.SetMaxStack(128 << 20)
}

type c12Field struct {
	Name string `json:"name"`
	Desc string `json:"desc"` // as written in Sysl
}
type c12Case struct {
	Fields []c12Field `json:"fields"`
	Ep     int        `json:"ep"` // endpoint variant
	Format string     `json:"format"`
	Mode   string     `json:"mode"`
	Reimp  bool       `json:"reimp,omitempty"`
}

var c12Prims = []string{"int", "string", "bool", "float", "decimal", "date", "datetime", "bytes"}

func c12Descs() []string {
	var out []string
	for _, p := range c12Prims {
		out = append(out, p, p+"?", "sequence of "+p)
	}
	out = append(out, "sequence of string?", "Other", "Other?", "sequence of Other", "sequence of Other?", "T", "sequence of T", "Kind", "Cyc")
	return out
}

var c12Endpoints = []string{
	"    /items:\n        GET:\n            return ok <: T\n",
	"    /items/{id <: int}:\n        GET ?limit=int?&must=string:\n            return ok <: T\n            return 404 <: Other\n",
	"    /items/{id <: int}/sub/{key <: string}:\n        POST (body <: T [~body], trace <: string [~header]) ?a=int&b=string?&c=bool:\n            return 200 <: sequence of T\n        DELETE:\n            return 204\n",
	"    /a:\n        PUT (body <: Other [~body, ~required]):\n            return 200 <: Other\n    /b:\n        PATCH (h1 <: string [~sensitive, ~header], h2 <: int [~header]):\n            return ok <: sequence of Other\n            return 500 <: Other\n",
}

func (c12) Bounds(tier string) map[string]interface{} {
	return map[string]interface{}{"descriptors": len(c12Descs()), "endpoint_variants": len(c12Endpoints)}
}

func (c12) Cases(tier string, emit func(string, interface{})) {
	ds := c12Descs()
	type fm struct{ f, m string }
	fms := []fm{{"openapi3", "yaml"}, {"openapi3", "json"}, {"swagger", "yaml"}, {"swagger", "json"}}
	n := 0
	// every descriptor alone (plus one fixed field), every pair; endpoint variants rotate
	for i, d1 := range ds {
		for j, d2 := range ds {
			if tier != "thorough" && i != j && (i+j)%3 != 0 {
				continue
			}
			fields := []c12Field{{"fa", d1}, {"fb", d2}}
			if (i+j)%4 == 0 {
				fields = append(fields, c12Field{"fc", "string"}, c12Field{"fd", "int?"})
			}
			for k, x := range fms {
				if tier != "thorough" && k%2 == 1 && (i+j)%5 != 0 {
					continue
				}
				emit(x.f, c12Case{Fields: fields, Ep: n % len(c12Endpoints), Format: x.f, Mode: x.m})
			}
			n++
		}
	}
	// re-import of OpenAPI 3 on one model per endpoint variant
	for e := range c12Endpoints {
		emit("openapi3-reimport", c12Case{Fields: []c12Field{{"fa", "int"}, {"fb", "string?"}, {"fc", "sequence of Other"}, {"fd", "Other?"}}, Ep: e, Format: "openapi3", Mode: "yaml", Reimp: true})
	}
}

func c12Source(cs c12Case) string {
	var b strings.Builder
	b.WriteString("Shop [version=\"1.0\"]:\n    !type T:\n")
	for _, f := range cs.Fields {
		fmt.Fprintf(&b, "        %s <: %s\n", f.Name, f.Desc)
	}
	b.WriteString("    !type Other:\n        oid <: int\n        note <: string?\n")
	b.WriteString("    !type Cyc:\n        back <: T?\n        n <: int\n")
	b.WriteString("    !enum Kind:\n        A: 1\n        B: 2\n")
	b.WriteString(c12Endpoints[cs.Ep])
	return b.String()
}

func exportApp(m *sysl.Module, format, mode string) (out []byte, err error, crash string) {
	defer func() {
		if r := recover(); r != nil {
			crash = fmt.Sprintf("%v\n%s", r, debug.Stack())
		}
	}()
	lg := logrus.New()
	lg.SetOutput(io.Discard)
	app := m.GetApps()["Shop"]
	if format == "swagger" {
		ex := exporter.MakeSwaggerExporter(app, lg)
		if err := ex.GenerateSwagger(); err != nil {
			return nil, err, ""
		}
		out, err = ex.SerializeOutput(mode)
		return out, err, ""
	}
	mod := &sysl.Module{Apps: map[string]*sysl.Application{syslutil.GetAppName(app.Name): app}}
	mapper := syslwrapper.MakeAppMapper(mod)
	mapper.IndexTypes()
	simple, err := mapper.Map()
	if err != nil {
		return nil, err, ""
	}
	ex := exporter.MakeOpenAPI3Exporter(simple, lg)
	if err := ex.Export(); err != nil {
		return nil, err, ""
	}
	out, err = ex.SerializeOutput("Shop", mode)
	return out, err, ""
}

// generic view of a schema (both formats), from JSON
type jsSchema struct {
	Type       string               `json:"type"`
	Format     string               `json:"format"`
	Ref        string               `json:"$ref"`
	Items      *jsSchema            `json:"items"`
	Properties map[string]*jsSchema `json:"properties"`
	Required   []string             `json:"required"`
	Enum       []interface{}        `json:"enum"`
}

func lastSeg(ref string) string {
	i := strings.LastIndex(ref, "/")
	return ref[i+1:]
}

// checkField: the schema of a property matches the Sysl field type.
func checkSchemaAgainst(s *jsSchema, t *sysl.Type) string {
	if s == nil {
		return "no schema"
	}
	inner, arr := elemType(t)
	if arr {
		if s.Type != "array" || s.Items == nil {
			return fmt.Sprintf("array-ness: schema type %q items=%v", s.Type, s.Items != nil)
		}
		s = s.Items
	} else if s.Type == "array" {
		return "array-ness: schema is an array"
	}
	if tgt := refTarget(inner); tgt != "" {
		if lastSeg(s.Ref) != tgt {
			return fmt.Sprintf("reference target: $ref %q (type %q format %q), want %s", s.Ref, s.Type, s.Format, tgt)
		}
		return ""
	}
	want := map[sysl.Type_Primitive]string{
		sysl.Type_INT: "integer", sysl.Type_STRING: "string", sysl.Type_BOOL: "boolean", sysl.Type_FLOAT: "number",
		sysl.Type_DECIMAL: "number", sysl.Type_DATE: "string", sysl.Type_DATETIME: "string", sysl.Type_BYTES: "string",
	}[inner.GetPrimitive()]
	if s.Type != want && !(inner.GetPrimitive() == sysl.Type_INT && s.Type == "number" && s.Format == "integer") {
		return fmt.Sprintf("kind: schema type %q format %q for %v", s.Type, s.Format, inner.GetPrimitive())
	}
	return ""
}

func (c12) Run(c core.Case) core.Outcome {
	var cs c12Case
	_ = json.Unmarshal(c.Data, &cs)
	var o core.Outcome
	o.Class = "ok"
	src := c12Source(cs)
	m, err := parse.NewParser().ParseString(src)
	if err != nil {
		o.Class = "does-not-compile"
		return o
	}
	fail := func(sig, msg, doc string) core.Outcome {
		o.Class = "violation"
		o.Violation = fmt.Sprintf("[%s %s] %s\n--- model ---\n%s--- document ---\n%s", cs.Format, cs.Mode, msg, src, doc)
		o.Sig = cs.Format + "|" + sig
		return o
	}
	// completeness problems are collected; the first one that is not a listed known finding is reported
	type prob struct{ sig, msg string }
	var probs []prob
	note := func(sig, msg, _ string) { probs = append(probs, prob{sig, msg}) }
	out, eerr, crash := exportApp(m, cs.Format, cs.Mode)
	if crash != "" {
		msg, frame := core.CrashSig("panic: " + crash)
		return fail("crash|"+frame+"|"+msg, "export panicked: "+strings.SplitN(crash, "\n", 2)[0], "")
	}
	if eerr != nil {
		return fail("export-error", "export failed: "+eerr.Error(), "")
	}
	doc := string(out)
	js := out
	if cs.Mode == "yaml" {
		js, err = yaml.YAMLToJSON(out)
		if err != nil {
			return fail("not-yaml", "output is not YAML: "+err.Error(), doc)
		}
	} else if !json.Valid(out) {
		return fail("not-json", "output is not JSON", doc)
	}
	// validity
	var schemas map[string]*jsSchema
	type jsParam struct {
		Name     string    `json:"name"`
		In       string    `json:"in"`
		Required bool      `json:"required"`
		Schema   *jsSchema `json:"schema"`
		Type     string    `json:"type"`
	}
	type jsOp struct {
		Parameters  []jsParam `json:"parameters"`
		RequestBody *struct {
			Content map[string]struct {
				Schema *jsSchema `json:"schema"`
			} `json:"content"`
		} `json:"requestBody"`
		Responses map[string]struct {
			Schema  *jsSchema `json:"schema"`
			Content map[string]struct {
				Schema *jsSchema `json:"schema"`
			} `json:"content"`
		} `json:"responses"`
	}
	var paths map[string]map[string]jsOp
	if cs.Format == "openapi3" {
		loader := openapi3.NewLoader()
		d3, lerr := loader.LoadFromData(js)
		if lerr != nil {
			return fail("invalid|load", "document does not load as OpenAPI 3: "+lerr.Error(), doc)
		}
		if verr := d3.Validate(context.Background()); verr != nil {
			return fail("invalid|"+core.MaskMsg(firstWords(verr.Error(), 6)), "document is not a valid OpenAPI 3 document: "+verr.Error(), doc)
		}
		var raw struct {
			Components struct {
				Schemas map[string]*jsSchema `json:"schemas"`
			} `json:"components"`
			Paths map[string]map[string]jsOp `json:"paths"`
		}
		_ = json.Unmarshal(js, &raw)
		schemas, paths = raw.Components.Schemas, raw.Paths
	} else {
		var sw spec.Swagger
		if uerr := json.Unmarshal(js, &sw); uerr != nil {
			return fail("invalid|load", "document does not load as Swagger 2: "+uerr.Error(), doc)
		}
		if sw.Swagger != "2.0" {
			return fail("invalid|version", "swagger version field is "+sw.Swagger, doc)
		}
		var raw struct {
			Definitions map[string]*jsSchema       `json:"definitions"`
			Paths       map[string]map[string]jsOp `json:"paths"`
		}
		_ = json.Unmarshal(js, &raw)
		schemas, paths = raw.Definitions, raw.Paths
	}
	// completeness: types
	app := m.GetApps()["Shop"]
	var tnames []string
	for tn := range app.GetTypes() {
		tnames = append(tnames, tn)
	}
	sort.Strings(tnames)
	for _, tn := range tnames {
		t := app.GetTypes()[tn]
		s := schemas[tn]
		if s == nil {
			note("type-missing", "type "+tn+" has no schema", doc)
			continue
		}
		if t.GetEnum() != nil {
			if len(s.Enum) != len(t.GetEnum().GetItems()) {
				note("enum-values", fmt.Sprintf("enum %s has %d values, schema lists %d", tn, len(t.GetEnum().GetItems()), len(s.Enum)), doc)
			}
			continue
		}
		fields := t.GetTuple().GetAttrDefs()
		var fnames []string
		for fn := range fields {
			fnames = append(fnames, fn)
		}
		sort.Strings(fnames)
		req := map[string]bool{}
		for _, r := range s.Required {
			req[r] = true
		}
		for _, fn := range fnames {
			ft := fields[fn]
			ps := s.Properties[fn]
			if ps == nil {
				note("field-missing", fmt.Sprintf("field %s.%s has no property", tn, fn), doc)
				continue
			}
			if pr := checkSchemaAgainst(ps, ft); pr != "" {
				note("field|"+strings.SplitN(pr, ":", 2)[0], fmt.Sprintf("field %s.%s: %s", tn, fn, pr), doc)
			}
			if req[fn] == anyOpt(ft) {
				note("field|required-ness", fmt.Sprintf("field %s.%s optional=%v but required=%v", tn, fn, anyOpt(ft), req[fn]), doc)
			}
		}
		if len(s.Properties) != len(fields) {
			note("extra-properties", fmt.Sprintf("type %s has %d fields, schema has %d properties", tn, len(fields), len(s.Properties)), doc)
		}
	}
	for sn := range schemas {
		if app.GetTypes()[sn] == nil {
			note("extra-schema", "schema "+sn+" is not a type of the application", doc)
		}
	}
	// completeness: endpoints
	for _, ep := range app.GetEndpoints() {
		rp := ep.GetRestParams()
		if rp == nil {
			continue
		}
		path := normPath(rp.GetPath())
		op, ok := paths[path][strings.ToLower(rp.GetMethod().String())]
		if !ok {
			note("operation-missing", fmt.Sprintf("endpoint %s has no operation", ep.GetName()), doc)
			continue
		}
		find := func(name, in string) *jsParam {
			for i := range op.Parameters {
				if op.Parameters[i].Name == name && op.Parameters[i].In == in {
					return &op.Parameters[i]
				}
			}
			return nil
		}
		for _, q := range rp.GetQueryParam() {
			p := find(q.GetName(), "query")
			if p == nil {
				note("query-param-missing", fmt.Sprintf("%s: query parameter %s is missing", ep.GetName(), q.GetName()), doc)
				continue
			}
			if p.Required == q.GetType().GetOpt() {
				note("query-param-required", fmt.Sprintf("%s: query parameter %s optional=%v required=%v", ep.GetName(), q.GetName(), q.GetType().GetOpt(), p.Required), doc)
			}
		}
		for _, u := range rp.GetUrlParam() {
			if find(u.GetName(), "path") == nil {
				note("path-param-missing", fmt.Sprintf("%s: path parameter %s is missing", ep.GetName(), u.GetName()), doc)
			}
		}
		for _, pa := range ep.GetParam() {
			tags := map[string]bool{}
			for _, e := range pa.GetType().GetAttrs()["patterns"].GetA().GetElt() {
				tags[e.GetS()] = true
			}
			switch {
			case tags["header"]:
				if find(pa.GetName(), "header") == nil {
					note("header-param-missing", fmt.Sprintf("%s: header parameter %s is missing", ep.GetName(), pa.GetName()), doc)
				}
			case tags["body"]:
				tgt := refTarget(pa.GetType())
				found := false
				if op.RequestBody != nil {
					for _, ct := range op.RequestBody.Content {
						found = found || (ct.Schema != nil && lastSeg(ct.Schema.Ref) == tgt)
					}
				}
				for _, p := range op.Parameters {
					found = found || (p.In == "body" && p.Schema != nil && lastSeg(p.Schema.Ref) == tgt)
				}
				if !found {
					note("body-missing", fmt.Sprintf("%s: request body %s (%s) is missing", ep.GetName(), pa.GetName(), tgt), doc)
				}
			}
		}
		for _, st := range ep.GetStmt() {
			r := st.GetRet()
			if r == nil {
				continue
			}
			parts := strings.SplitN(r.GetPayload(), "<:", 2)
			code := strings.TrimSpace(parts[0])
			if code == "ok" {
				code = "200"
			}
			resp, ok := op.Responses[code]
			if !ok {
				kind := "response-missing"
				if len(parts) == 1 {
					kind = "response-missing|status-only"
				}
				note(kind, fmt.Sprintf("%s: response %q is missing", ep.GetName(), r.GetPayload()), doc)
				continue
			}
			if len(parts) == 2 {
				ty := strings.TrimSpace(parts[1])
				wantArr := strings.HasPrefix(ty, "sequence of ")
				tgt := strings.TrimPrefix(ty, "sequence of ")
				var sc *jsSchema
				if resp.Schema != nil {
					sc = resp.Schema
				}
				for _, ct := range resp.Content {
					sc = ct.Schema
				}
				if sc == nil {
					note("response-type", fmt.Sprintf("%s: response %q carries no schema", ep.GetName(), r.GetPayload()), doc)
					continue
				}
				if wantArr {
					if sc.Type != "array" || sc.Items == nil || lastSeg(sc.Items.Ref) != tgt {
						note("response-type", fmt.Sprintf("%s: response %q is not an array of %s", ep.GetName(), r.GetPayload(), tgt), doc)
					}
				} else if lastSeg(sc.Ref) != tgt {
					note("response-type", fmt.Sprintf("%s: response %q does not reference %s", ep.GetName(), r.GetPayload(), tgt), doc)
				}
			}
		}
	}
	if len(probs) > 0 {
		o.Extra = map[string]int{}
		seenSig := map[string]bool{}
		for _, p := range probs {
			if !seenSig[p.sig] {
				seenSig[p.sig] = true
				o.Extra["problem:"+cs.Format+"|"+p.sig]++
			}
		}
		pick := probs[0]
		for _, p := range probs {
			if !core.IsKnownSig("C12", cs.Format+"|"+p.sig) {
				pick = p
				break
			}
		}
		res := fail(pick.sig, pick.msg+fmt.Sprintf(" (%d completeness problem(s) in this document)", len(probs)), doc)
		alsoSeen := map[string]bool{pick.sig: true}
		for _, p := range probs {
			if !alsoSeen[p.sig] {
				alsoSeen[p.sig] = true
				res.Also = append(res.Also, core.AlsoViolation{Sig: cs.Format + "|" + p.sig, Violation: "[" + cs.Format + "] " + p.msg})
			}
		}
		return res
	}
	if cs.Reimp {
		text, errs := runImport("doc.yaml", doc, "")
		if errs != "" {
			return fail("reimport-fails", "the exported document cannot be imported: "+errs, doc)
		}
		m2, err2, crash2 := compileFiles(filesCase{Root: "imp.sysl", Files: map[string]string{"imp.sysl": text}}, parse.Settings{})
		if err2 != nil || crash2 != "" {
			return fail("reimport-does-not-compile", fmt.Sprintf("re-imported text does not compile: %v %s", err2, crash2), text)
		}
		var app2 *sysl.Application
		for _, a := range m2.GetApps() {
			app2 = a
		}
		for _, tn := range tnames {
			t1, t2 := app.GetTypes()[tn], app2.GetTypes()[tn]
			if t1.GetTuple() == nil {
				continue
			}
			if t2 == nil {
				return fail("reimport-type-missing", "re-import lost type "+tn, text)
			}
			f2 := fieldsByOrigName(t2)
			for fn, ft := range t1.GetTuple().GetAttrDefs() {
				g := f2[fn]
				if g == nil {
					return fail("reimport-field-missing", fmt.Sprintf("re-import lost field %s.%s", tn, fn), text)
				}
				i1, a1 := elemType(ft)
				i2, a2 := elemType(g)
				if a1 != a2 || anyOpt(ft) != anyOpt(g) || refTarget(i1) != refTarget(i2) || (refTarget(i1) == "" && i1.GetPrimitive() != i2.GetPrimitive() && !(i1.GetPrimitive() == sysl.Type_DECIMAL && i2.GetPrimitive() == sysl.Type_FLOAT)) {
					return fail("reimport-field-differs", fmt.Sprintf("re-imported field %s.%s differs: %v vs %v", tn, fn, ft, g), text)
				}
			}
		}
		n1, n2 := 0, 0
		for _, e := range app.GetEndpoints() {
			if e.GetRestParams() != nil {
				n1++
			}
		}
		for _, e := range app2.GetEndpoints() {
			if e.GetRestParams() != nil {
				n2++
			}
		}
		if n1 != n2 {
			return fail("reimport-endpoints", fmt.Sprintf("%d REST endpoints exported, %d after re-import", n1, n2), text)
		}
	}
	o.NonTrivial = core.Hash(src + cs.Format + cs.Mode)
	return o
}
