package props

// C11 — importers emit valid Sysl that contains everything the foreign spec defines.
// A description language per format (what the document defines) is enumerated completely to
// small bounds, written out as OpenAPI 2 / OpenAPI 3 / XSD / SQL text, imported by the real
// importers, compiled back by the real parser and compared with the description.

import (
	"encoding/json"
	"fmt"
	"io"
	"runtime/debug"
	"sort"
	"strings"
	"time"

	"github.com/sirupsen/logrus"

	"github.com/anz-bank/sysl/pkg/importer"
	"github.com/anz-bank/sysl/pkg/parse"
	"github.com/anz-bank/sysl/pkg/sysl"
	"verif/engine/core"
)

type c11 struct{}

func init() { core.Register(c11{}) }

func (c11) ID() string    { return "C11" }
func (c11) Level() string { return "exploration" }
func (c11) Rule() string {
	return "OpenAPI 2 and 3: every property descriptor (string, date, date-time, byte, integer, int32, int64, number, float, double, boolean, nested object, array of primitive, array of $ref, $ref, enum) x required/optional x property-name pool, alone and in all pairs of kinds, required lists of 0..4 entries, and endpoints: paths of depth <=2 with path parameters x 5 methods x parameter location (path, query, header, body) x required x response shapes; XSD: complex types with element sequences (occurrence bounds), attributes, simple-type restrictions, named types; SQL DDL (spanner dialect, packed): tables x column types x NOT NULL x single/composite keys x foreign keys. Non-trivial = import succeeded and the compiled result has at least one type or endpoint; distinct by document text"
}
func (c11) Assumptions() []string {
	return []string{
		"the supported subset is what the importers' own fixtures use; documents are well-formed (path parameters declared, references resolvable)",
		"properties are matched through the json_tag annotation the importers write (the Sysl field name may be decorated); types are compared by primitive kind, optionality, array-ness, reference target and key-ness",
		"SQL import runs an arr.ai bundle (about 3 s per document), so SQL documents are packed and few",
	}
}
func (c11) CaseTimeout() time.Duration { return 5 * time.Minute }
func (c11) InitWorker() {
	logrus.SetOutput(io.Discard)
	debug.SetMaxStack(128 << 20)
}

// ---- OpenAPI description

type oaProp struct {
	Name     string `json:"name"`
	Kind     string `json:"kind"`
	Required bool   `json:"req"`
}
type oaSchema struct {
	Name  string   `json:"name"`
	Props []oaProp `json:"props"`
	// ArrayInline: the definition is an array whose items are an inline object with these properties
	ArrayInline bool `json:"arrayinline,omitempty"`
}
type oaParam struct {
	Name     string `json:"name"`
	In       string `json:"in"`
	Kind     string `json:"kind"` // string, integer, boolean; body: ref name
	Required bool   `json:"req"`
}
type oaResp struct {
	Code  string `json:"code"`
	Shape string `json:"shape"` // none, ref, arrayref, inline (an inline object with the single string property Prop)
	Prop  string `json:"prop,omitempty"`
}
type oaOp struct {
	Path   string    `json:"path"`
	Method string    `json:"method"`
	Params []oaParam `json:"params"`
	Resps  []oaResp  `json:"resps"`
	Shared []oaParam `json:"shared,omitempty"` // path-item level parameters (the same list on every operation of the path)
	// Consumes: media types the operation consumes (Swagger 2): the body is imported once per media type
	Consumes []string `json:"consumes,omitempty"`
}
type oaDoc struct {
	Version int        `json:"version"` // 2 or 3
	Schemas []oaSchema `json:"schemas"`
	Ops     []oaOp     `json:"ops"`
}

var oaKinds = []string{"string", "date", "date-time", "byte", "integer", "int32", "int64", "number", "float", "double", "boolean", "object", "array-string", "array-ref", "ref", "enum"}

func oaTypeYAML(kind string, ind string, v int) string {
	ref := "#/definitions/Other"
	if v == 3 {
		ref = "#/components/schemas/Other"
	}
	switch kind {
	case "string":
		return ind + "type: string\n"
	case "date", "date-time", "byte":
		return ind + "type: string\n" + ind + "format: " + kind + "\n"
	case "integer":
		return ind + "type: integer\n"
	case "int32", "int64":
		return ind + "type: integer\n" + ind + "format: " + kind + "\n"
	case "number":
		return ind + "type: number\n"
	case "float", "double":
		return ind + "type: number\n" + ind + "format: " + kind + "\n"
	case "boolean":
		return ind + "type: boolean\n"
	case "object":
		return ind + "type: object\n" + ind + "properties:\n" + ind + "  inner:\n" + ind + "    type: string\n"
	case "array-string":
		return ind + "type: array\n" + ind + "items:\n" + ind + "  type: string\n"
	case "array-ref":
		return ind + "type: array\n" + ind + "items:\n" + ind + "  $ref: '" + ref + "'\n"
	case "ref":
		return ind + "$ref: '" + ref + "'\n"
	case "enum":
		return ind + "type: string\n" + ind + "enum: [aa, bb]\n"
	}
	panic(kind)
}

func (d oaDoc) render() string {
	var b strings.Builder
	if d.Version == 2 {
		b.WriteString("swagger: \"2.0\"\n")
	} else {
		b.WriteString("openapi: \"3.0.0\"\n")
	}
	b.WriteString("info:\n  title: T\n  version: \"1.0\"\npaths:\n")
	byPath := map[string][]oaOp{}
	var paths []string
	for _, o := range d.Ops {
		if _, ok := byPath[o.Path]; !ok {
			paths = append(paths, o.Path)
		}
		byPath[o.Path] = append(byPath[o.Path], o)
	}
	if len(paths) == 0 {
		b.WriteString("  {}\n")
	}
	ref := func(n string) string {
		if d.Version == 2 {
			return "#/definitions/" + n
		}
		return "#/components/schemas/" + n
	}
	for _, p := range paths {
		b.WriteString("  " + p + ":\n")
		if sh := byPath[p][0].Shared; len(sh) > 0 {
			b.WriteString("    parameters:\n")
			for _, q := range sh {
				fmt.Fprintf(&b, "      - name: %s\n        in: %s\n        required: %v\n", q.Name, q.In, q.Required || q.In == "path")
				if d.Version == 2 {
					b.WriteString("        type: " + q.Kind + "\n")
				} else {
					b.WriteString("        schema:\n          type: " + q.Kind + "\n")
				}
			}
		}
		for _, o := range byPath[p] {
			b.WriteString("    " + strings.ToLower(o.Method) + ":\n")
			if len(o.Consumes) > 0 && d.Version == 2 {
				b.WriteString("      consumes:\n")
				for _, c := range o.Consumes {
					b.WriteString("        - " + c + "\n")
				}
			}
			var body *oaParam
			var others []oaParam
			for i := range o.Params {
				if o.Params[i].In == "body" {
					body = &o.Params[i]
				} else {
					others = append(others, o.Params[i])
				}
			}
			if len(others) > 0 || (body != nil && d.Version == 2) {
				b.WriteString("      parameters:\n")
			}
			for _, q := range others {
				fmt.Fprintf(&b, "        - name: %s\n          in: %s\n          required: %v\n", q.Name, q.In, q.Required || q.In == "path")
				if d.Version == 2 {
					b.WriteString("          type: " + q.Kind + "\n")
				} else {
					b.WriteString("          schema:\n            type: " + q.Kind + "\n")
				}
			}
			if body != nil {
				if d.Version == 2 {
					fmt.Fprintf(&b, "        - name: %s\n          in: body\n          required: %v\n          schema:\n            $ref: '%s'\n", body.Name, body.Required, ref(body.Kind))
				} else {
					fmt.Fprintf(&b, "      requestBody:\n        required: %v\n        content:\n          application/json:\n            schema:\n              $ref: '%s'\n", body.Required, ref(body.Kind))
				}
			}
			b.WriteString("      responses:\n")
			for _, r := range o.Resps {
				fmt.Fprintf(&b, "        '%s':\n          description: d\n", r.Code)
				sch := ""
				switch r.Shape {
				case "ref":
					sch = "$ref: '" + ref("Other") + "'\n"
				case "arrayref":
					sch = "type: array\nitems:\n  $ref: '" + ref("Other") + "'\n"
				case "inline":
					sch = "type: object\nproperties:\n  " + r.Prop + ":\n    type: string\n"
				}
				if sch != "" {
					if d.Version == 2 {
						b.WriteString("          schema:\n" + indentBy(sch, "            "))
					} else {
						b.WriteString("          content:\n            application/json:\n              schema:\n" + indentBy(sch, "                "))
					}
				}
			}
		}
	}
	if d.Version == 2 {
		b.WriteString("definitions:\n")
	} else {
		b.WriteString("components:\n  schemas:\n")
	}
	pad := "  "
	if d.Version == 3 {
		pad = "    "
	}
	for _, s := range append([]oaSchema{{Name: "Other", Props: []oaProp{{Name: "z", Kind: "integer"}}}}, d.Schemas...) {
		if s.ArrayInline {
			b.WriteString(pad + s.Name + ":\n" + pad + "  type: array\n" + pad + "  items:\n" + pad + "    type: object\n" + pad + "    properties:\n")
			for _, p := range s.Props {
				fmt.Fprintf(&b, "%s      %q:\n", pad, p.Name)
				b.WriteString(oaTypeYAML(p.Kind, pad+"        ", d.Version))
			}
			continue
		}
		b.WriteString(pad + s.Name + ":\n" + pad + "  type: object\n")
		var req []string
		for _, p := range s.Props {
			if p.Required {
				req = append(req, fmt.Sprintf("%q", p.Name))
			}
		}
		if len(req) > 0 {
			b.WriteString(pad + "  required: [" + strings.Join(req, ", ") + "]\n")
		}
		b.WriteString(pad + "  properties:\n")
		for _, p := range s.Props {
			fmt.Fprintf(&b, "%s    %q:\n", pad, p.Name)
			b.WriteString(oaTypeYAML(p.Kind, pad+"      ", d.Version))
		}
	}
	return b.String()
}

func indentBy(s, pad string) string {
	var b strings.Builder
	for _, l := range strings.SplitAfter(s, "\n") {
		if l != "" {
			b.WriteString(pad + l)
		}
	}
	return b.String()
}

var oaNames = []string{"plain", "with-dash", "with space", "type", "int", "1lead", "dot.ted", "CamelCase", "under_score"}

func oaDocs(tier string) []oaDoc {
	var out []oaDoc
	for _, v := range []int{2, 3} {
		// each descriptor alone, required and optional, with each name
		for _, k := range oaKinds {
			for _, req := range []bool{false, true} {
				for ni, n := range oaNames {
					if tier != "thorough" && ni > 0 && k != "string" && k != "ref" && k != "array-ref" && k != "object" {
						continue
					}
					out = append(out, oaDoc{Version: v, Schemas: []oaSchema{{Name: "S", Props: []oaProp{{Name: n, Kind: k, Required: req}}}}})
				}
			}
		}
		// all pairs of kinds
		for i, k1 := range oaKinds {
			for j, k2 := range oaKinds {
				out = append(out, oaDoc{Version: v, Schemas: []oaSchema{{Name: "S", Props: []oaProp{{Name: "p1", Kind: k1, Required: i%2 == 0}, {Name: "p2", Kind: k2, Required: j%2 == 1}}}}})
			}
		}
		// required lists of 0..4 entries over 4 properties, every subset
		for mask := 0; mask < 16; mask++ {
			var ps []oaProp
			for i := 0; i < 4; i++ {
				ps = append(ps, oaProp{Name: fmt.Sprintf("f%d", i), Kind: []string{"string", "integer", "ref", "array-string"}[i], Required: mask&(1<<uint(i)) != 0})
			}
			out = append(out, oaDoc{Version: v, Schemas: []oaSchema{{Name: "S", Props: ps}, {Name: "S2", Props: ps[:2]}}})
		}
		// endpoints
		methods := []string{"GET", "POST", "PUT", "PATCH", "DELETE"}
		paths := []string{"/a", "/a/{id}", "/a/{id}/b", "/a/{id}/b/{key}"}
		respSets := [][]oaResp{{{Code: "200", Shape: "none"}}, {{Code: "200", Shape: "ref"}}, {{Code: "200", Shape: "arrayref"}}, {{Code: "200", Shape: "ref"}, {Code: "404", Shape: "ref"}}, {{Code: "default", Shape: "ref"}}}
		for pi, p := range paths {
			for mi, m := range methods {
				for ri, rs := range respSets {
					for _, loc := range []string{"none", "query", "header", "body", "query+header"} {
						if tier != "thorough" && (pi+mi+ri)%2 == 1 && loc != "query" {
							continue
						}
						var ps []oaParam
						for _, seg := range strings.Split(p, "/") {
							if strings.HasPrefix(seg, "{") {
								k := "integer"
								if seg == "{key}" {
									k = "string"
								}
								ps = append(ps, oaParam{Name: strings.Trim(seg, "{}"), In: "path", Kind: k, Required: true})
							}
						}
						for _, l := range strings.Split(loc, "+") {
							switch l {
							case "query":
								ps = append(ps, oaParam{Name: "limit", In: "query", Kind: "integer", Required: false}, oaParam{Name: "must", In: "query", Kind: "string", Required: true})
							case "header":
								ps = append(ps, oaParam{Name: "X-Trace", In: "header", Kind: "string", Required: true})
							case "body":
								if m != "GET" && m != "DELETE" {
									ps = append(ps, oaParam{Name: "payload", In: "body", Kind: "Other", Required: true})
								}
							}
						}
						out = append(out, oaDoc{Version: v, Ops: []oaOp{{Path: p, Method: m, Params: ps, Resps: rs}}})
					}
				}
			}
		}
		// two methods on one path, two paths
		out = append(out, oaDoc{Version: v, Ops: []oaOp{
			{Path: "/a/{id}", Method: "GET", Params: []oaParam{{Name: "id", In: "path", Kind: "integer", Required: true}}, Resps: []oaResp{{Code: "200", Shape: "ref"}}},
			{Path: "/a/{id}", Method: "DELETE", Params: []oaParam{{Name: "id", In: "path", Kind: "integer", Required: true}}, Resps: []oaResp{{Code: "204", Shape: "none"}}},
			{Path: "/b", Method: "POST", Params: []oaParam{{Name: "payload", In: "body", Kind: "Other", Required: true}}, Resps: []oaResp{{Code: "201", Shape: "ref"}}},
		}})
		// a body consumed under one, two and three media types (Swagger 2)
		if v == 2 {
			for n := 1; n <= 3; n++ {
				out = append(out, oaDoc{Version: 2, Ops: []oaOp{{Path: "/pets", Method: "POST", Consumes: []string{"application/json", "application/xml", "text/plain"}[:n],
					Params: []oaParam{{Name: "pet", In: "body", Kind: "Other", Required: true}}, Resps: []oaResp{{Code: "200", Shape: "ref"}}}}})
			}
		}
		// inline-object responses of several operations next to a definition that is an array of inline objects
		for _, withArr := range []bool{false, true} {
			if v != 2 {
				break // the OpenAPI 3 importer wraps responses in a {header, body} type: a different representation
			}
			for nops := 1; nops <= 3; nops++ {
				var ops []oaOp
				for i := 0; i < nops; i++ {
					ops = append(ops, oaOp{Path: fmt.Sprintf("/in%d", i), Method: []string{"GET", "POST", "PUT"}[i], Resps: []oaResp{{Code: "200", Shape: "inline", Prop: fmt.Sprintf("only%d", i)}}})
				}
				d := oaDoc{Version: v, Ops: ops}
				if withArr {
					d.Schemas = []oaSchema{{Name: "Lines", ArrayInline: true, Props: []oaProp{{Name: "total", Kind: "integer"}}}, {Name: "Zed", Props: []oaProp{{Name: "nested", Kind: "object"}}}}
				}
				out = append(out, d)
			}
		}
		// path-item level parameters shared by several methods, each with parameters of its own
		sharedPool := []oaParam{{Name: "id", In: "path", Kind: "integer", Required: true}, {Name: "s1", In: "query", Kind: "string", Required: true}, {Name: "s2", In: "query", Kind: "integer"},
			{Name: "X-S3", In: "header", Kind: "string", Required: true}, {Name: "s4", In: "query", Kind: "boolean"}, {Name: "s5", In: "query", Kind: "string"}, {Name: "s6", In: "query", Kind: "string"}}
		ownPool := map[string][]oaParam{
			"GET":    {{Name: "g1", In: "query", Kind: "string"}, {Name: "g2", In: "query", Kind: "integer", Required: true}},
			"DELETE": {{Name: "d1", In: "query", Kind: "boolean"}, {Name: "X-D2", In: "header", Kind: "string", Required: true}},
			"POST":   {{Name: "p1", In: "query", Kind: "string", Required: true}, {Name: "payload", In: "body", Kind: "Other", Required: true}},
		}
		for k := 0; k <= len(sharedPool); k++ {
			path := "/s"
			if k >= 1 {
				path = "/s/{id}"
			}
			for _, ms := range [][]string{{"GET", "DELETE"}, {"GET", "POST"}, {"DELETE", "POST"}, {"GET", "DELETE", "POST"}} {
				total := 1
				for range ms {
					total *= 3
				}
				for code := 0; code < total; code++ {
					var ops []oaOp
					c := code
					for _, m := range ms {
						own := c % 3
						c /= 3
						ops = append(ops, oaOp{Path: path, Method: m, Shared: sharedPool[:k], Params: ownPool[m][:own], Resps: []oaResp{{Code: "200", Shape: "ref"}}})
					}
					out = append(out, oaDoc{Version: v, Ops: ops})
				}
			}
		}
	}
	return out
}

// ---- checking helpers

type impResult struct {
	Text  string
	Mod   *sysl.Module
	Err   string
	Stage string
}

func runImport(name, content, format string) (text string, errs string) {
	defer func() {
		if r := recover(); r != nil {
			errs = fmt.Sprintf("PANIC: %v\n%s", r, debug.Stack())
		}
	}()
	lg := logrus.New()
	lg.SetOutput(io.Discard)
	imp, err := importer.Factory(name, false, format, []byte(content), lg)
	if err != nil {
		return "", "factory: " + err.Error()
	}
	imp, err = imp.Configure(&importer.ImporterArg{AppName: "Imp", PackageName: "pkg"})
	if err != nil {
		return "", "configure: " + err.Error()
	}
	out, err := imp.Load(content)
	if err != nil {
		return "", "load: " + err.Error()
	}
	return out, ""
}

// fieldsByOrigName: fields of a type keyed by the original (foreign) property name.
func fieldsByOrigName(t *sysl.Type) map[string]*sysl.Type {
	out := map[string]*sysl.Type{}
	var fields map[string]*sysl.Type
	if x := t.GetTuple(); x != nil {
		fields = x.GetAttrDefs()
	}
	if x := t.GetRelation(); x != nil {
		fields = x.GetAttrDefs()
	}
	for n, f := range fields {
		key := n
		// the original name is kept as json_tag: on the field, or (for 'name(0..) <: sequence of T') on
		// the collection type inside the field
		for x := f; x != nil; {
			if jt := x.GetAttrs()["json_tag"].GetS(); jt != "" {
				key = jt
				break
			}
			switch {
			case x.GetList() != nil:
				x = x.GetList().GetType()
			case x.GetSequence() != nil:
				x = x.GetSequence()
			case x.GetSet() != nil:
				x = x.GetSet()
			default:
				x = nil
			}
		}
		out[key] = f
	}
	return out
}

// elemType unwraps every collection layer (the XSD importer writes 'name(0..) <: sequence of T',
// which compiles to a list of a sequence).
func elemType(t *sysl.Type) (inner *sysl.Type, array bool) {
	for {
		switch x := t.GetType().(type) {
		case *sysl.Type_Sequence:
			t, array = x.Sequence, true
		case *sysl.Type_Set:
			t, array = x.Set, true
		case *sysl.Type_List_:
			t, array = x.List.GetType(), true
		default:
			return t, array
		}
	}
}

// anyOpt: optional at any collection layer.
func anyOpt(t *sysl.Type) bool {
	for {
		if t.GetOpt() {
			return true
		}
		switch x := t.GetType().(type) {
		case *sysl.Type_Sequence:
			t = x.Sequence
		case *sysl.Type_Set:
			t = x.Set
		case *sysl.Type_List_:
			t = x.List.GetType()
		default:
			return false
		}
	}
}

func refTarget(t *sysl.Type) string {
	if r := t.GetTypeRef(); r != nil {
		p := r.GetRef().GetPath()
		if len(p) > 0 {
			return p[len(p)-1]
		}
	}
	return ""
}

func checkOAProp(app *sysl.Application, f *sysl.Type, p oaProp) string {
	inner, arr := elemType(f)
	wantArr := strings.HasPrefix(p.Kind, "array-")
	if arr != wantArr {
		return fmt.Sprintf("array-ness: got array=%v", arr)
	}
	if f.GetOpt() == p.Required {
		return fmt.Sprintf("optionality: required=%v but opt=%v", p.Required, f.GetOpt())
	}
	prim := inner.GetPrimitive()
	wantPrim := map[string]sysl.Type_Primitive{
		"string": sysl.Type_STRING, "date": sysl.Type_DATE, "date-time": sysl.Type_DATETIME, "byte": sysl.Type_BYTES,
		"integer": sysl.Type_INT, "int32": sysl.Type_INT, "int64": sysl.Type_INT,
		"number": sysl.Type_FLOAT, "float": sysl.Type_FLOAT, "double": sysl.Type_FLOAT, "boolean": sysl.Type_BOOL,
		"array-string": sysl.Type_STRING, "enum": sysl.Type_STRING,
	}
	switch p.Kind {
	case "ref", "array-ref":
		if refTarget(inner) != "Other" {
			return fmt.Sprintf("reference target: got %q (%v)", refTarget(inner), inner.GetType())
		}
	case "object":
		tn := refTarget(inner)
		if tn == "" {
			return "nested object is not a reference to a generated type"
		}
		nt := app.GetTypes()[tn]
		if nt == nil {
			return "nested object type " + tn + " is not declared"
		}
		if _, ok := fieldsByOrigName(nt)["inner"]; !ok {
			return "nested object type " + tn + " lacks property 'inner'"
		}
	case "byte":
		if prim != sysl.Type_BYTES && prim != sysl.Type_STRING {
			return fmt.Sprintf("primitive kind: got %v", prim)
		}
	default:
		if prim != wantPrim[p.Kind] {
			// an enum or alias may be imported as a reference to a generated alias type
			if tn := refTarget(inner); tn != "" {
				if at := app.GetTypes()[tn]; at != nil {
					if e, _ := elemType(at); e.GetPrimitive() == wantPrim[p.Kind] || at.GetEnum() != nil {
						return ""
					}
				}
			}
			return fmt.Sprintf("primitive kind: got %v want %v", prim, wantPrim[p.Kind])
		}
	}
	return ""
}

func checkOADoc(m *sysl.Module, d oaDoc) (problem, class string) {
	app := m.GetApps()["Imp"]
	if app == nil {
		for _, a := range m.GetApps() {
			app = a
		}
	}
	if app == nil {
		return "no application in the compiled result", "no-app"
	}
	for _, s := range append([]oaSchema{{Name: "Other", Props: []oaProp{{Name: "z", Kind: "integer"}}}}, d.Schemas...) {
		t := app.GetTypes()[s.Name]
		if t == nil {
			return fmt.Sprintf("schema %s has no type", s.Name), "schema-missing"
		}
		if s.ArrayInline {
			// an alias 'sequence of X' where X carries the item object's properties
			inner, arr := elemType(t)
			if !arr || refTarget(inner) == "" {
				return fmt.Sprintf("array definition %s is not a sequence of a named item type", s.Name), "arrayinline-shape"
			}
			t = app.GetTypes()[refTarget(inner)]
			if t == nil {
				return fmt.Sprintf("array definition %s: item type %s is missing", s.Name, refTarget(inner)), "arrayinline-item-missing"
			}
		}
		fs := fieldsByOrigName(t)
		for _, p := range s.Props {
			f := fs[p.Name]
			if f == nil {
				return fmt.Sprintf("property %s.%q is missing (fields: %v)", s.Name, p.Name, keysOf(fs)), "property-missing"
			}
			if pr := checkOAProp(app, f, p); pr != "" {
				return fmt.Sprintf("property %s.%q (%s, required=%v): %s", s.Name, p.Name, p.Kind, p.Required, pr), "property|" + strings.SplitN(pr, ":", 2)[0] + "|" + p.Kind
			}
		}
		if len(fs) != len(s.Props) {
			return fmt.Sprintf("schema %s has %d properties but the type has fields %v", s.Name, len(s.Props), keysOf(fs)), "extra-fields"
		}
	}
	for _, o := range d.Ops {
		var ep *sysl.Endpoint
		for _, e := range app.GetEndpoints() {
			rp := e.GetRestParams()
			if rp != nil && rp.GetMethod().String() == o.Method && normPath(rp.GetPath()) == o.Path {
				ep = e
			}
		}
		if ep == nil {
			var have []string
			for k := range app.GetEndpoints() {
				have = append(have, k)
			}
			return fmt.Sprintf("operation %s %s has no endpoint (endpoints: %v)", o.Method, o.Path, have), "endpoint-missing"
		}
		wantCount := map[string]int{}
		for _, q := range append(append([]oaParam{}, o.Shared...), o.Params...) {
			wantCount[q.In]++
		}
		gotHeader := 0
		for _, pa := range ep.GetParam() {
			for _, e := range pa.GetType().GetAttrs()["patterns"].GetA().GetElt() {
				if e.GetS() == "header" {
					gotHeader++
				}
			}
		}
		if n := len(ep.GetRestParams().GetQueryParam()); n != wantCount["query"] {
			return fmt.Sprintf("%s %s: the operation has %d query parameters but the endpoint has %d", o.Method, o.Path, wantCount["query"], n), "query-param-count"
		}
		if len(o.Consumes) > 1 && wantCount["body"] == 1 {
			gotBody := 0
			for _, pa := range ep.GetParam() {
				for _, e := range pa.GetType().GetAttrs()["patterns"].GetA().GetElt() {
					if e.GetS() == "body" {
						gotBody++
					}
				}
			}
			if gotBody != len(o.Consumes) {
				return fmt.Sprintf("%s %s: the body is consumed as %v but the endpoint has %d body parameter(s)", o.Method, o.Path, o.Consumes, gotBody), "body-per-media-type"
			}
		}
		if gotHeader != wantCount["header"] {
			return fmt.Sprintf("%s %s: the operation has %d header parameters but the endpoint has %d", o.Method, o.Path, wantCount["header"], gotHeader), "header-param-count"
		}
		for _, q := range append(append([]oaParam{}, o.Shared...), o.Params...) {
			found := false
			want := map[string]sysl.Type_Primitive{"integer": sysl.Type_INT, "string": sysl.Type_STRING, "boolean": sysl.Type_BOOL}[q.Kind]
			switch q.In {
			case "path":
				for _, u := range ep.GetRestParams().GetUrlParam() {
					if u.GetName() == q.Name {
						found = true
						if u.GetType().GetPrimitive() != want {
							return fmt.Sprintf("%s %s: path parameter %s has kind %v", o.Method, o.Path, q.Name, u.GetType().GetPrimitive()), "path-param-kind"
						}
					}
				}
			case "query":
				for _, u := range ep.GetRestParams().GetQueryParam() {
					if u.GetName() == q.Name {
						found = true
						if u.GetType().GetPrimitive() != want {
							return fmt.Sprintf("%s %s: query parameter %s has kind %v", o.Method, o.Path, q.Name, u.GetType().GetPrimitive()), "query-param-kind"
						}
						if u.GetType().GetOpt() == q.Required {
							return fmt.Sprintf("%s %s: query parameter %s required=%v but opt=%v", o.Method, o.Path, q.Name, q.Required, u.GetType().GetOpt()), "query-param-optionality"
						}
					}
				}
			case "header", "body":
				for _, pa := range ep.GetParam() {
					tags := map[string]bool{}
					for _, e := range pa.GetType().GetAttrs()["patterns"].GetA().GetElt() {
						tags[e.GetS()] = true
					}
					if !tags[q.In] {
						continue
					}
					if q.In == "header" && (pa.GetType().GetAttrs()["name"].GetS() == q.Name || strings.EqualFold(pa.GetName(), q.Name)) {
						found = true
					}
					if q.In == "body" {
						found = refTarget(pa.GetType()) == q.Kind
					}
				}
			}
			if !found {
				return fmt.Sprintf("%s %s: %s parameter %s is missing from the endpoint", o.Method, o.Path, q.In, q.Name), q.In + "-param-missing"
			}
		}
		var rets []string
		var walk func(ss []*sysl.Statement)
		walk = func(ss []*sysl.Statement) {
			for _, s := range ss {
				if r := s.GetRet(); r != nil {
					rets = append(rets, r.GetPayload())
				}
			}
		}
		walk(ep.GetStmt())
		for _, r := range o.Resps {
			ok := false
			for _, p := range rets {
				code := r.Code
				if code == "default" {
					code = ""
				}
				hasCode := code == "" || strings.Contains(p, code) || (strings.HasPrefix(code, "2") && strings.HasPrefix(p, "ok"))
				switch r.Shape {
				case "none":
					ok = ok || hasCode
				case "ref":
					ok = ok || (hasCode && strings.Contains(p, "Other") && !strings.Contains(p, "sequence of"))
				case "arrayref":
					ok = ok || (hasCode && strings.Contains(p, "sequence of Other"))
				case "inline":
					// the payload names a type that has exactly the one property of this response
					if !hasCode || !strings.Contains(p, "<:") {
						continue
					}
					tn := strings.Fields(strings.TrimSpace(strings.SplitN(p, "<:", 2)[1]))[0]
					rt := app.GetTypes()[tn]
					if rt == nil {
						continue
					}
					rfs := fieldsByOrigName(rt)
					if len(rfs) == 1 && rfs[r.Prop] != nil {
						ok = true
					} else {
						return fmt.Sprintf("%s %s: response %s is an inline object with the single property %q but its type %s has fields %v", o.Method, o.Path, r.Code, r.Prop, tn, keysOf(rfs)), "inline-response-fields"
					}
				}
			}
			if !ok {
				return fmt.Sprintf("%s %s: response %s (%s) has no matching return statement (returns: %q)", o.Method, o.Path, r.Code, r.Shape, rets), "response-missing|" + r.Shape
			}
		}
	}
	return "", ""
}

func normPath(p string) string {
	// strip types from path variables: /a/{id<:int} -> /a/{id}
	var b strings.Builder
	for i := 0; i < len(p); i++ {
		if p[i] == '{' {
			j := strings.IndexByte(p[i:], '}')
			inner := p[i+1 : i+j]
			if k := strings.Index(inner, "<:"); k >= 0 {
				inner = inner[:k]
			}
			b.WriteString("{" + strings.TrimSpace(inner) + "}")
			i += j
			continue
		}
		b.WriteByte(p[i])
	}
	return b.String()
}

func keysOf(m map[string]*sysl.Type) []string {
	var out []string
	for k := range m {
		out = append(out, k)
	}
	sort.Strings(out)
	return out
}

// ---- XSD

type xsdElem struct {
	Name string `json:"name"`
	Type string `json:"type"` // xs:string xs:int xs:date xs:decimal xs:boolean Code Base
	Min  string `json:"min"`
	Max  string `json:"max"`
}
type xsdAttr struct {
	Name     string `json:"name"`
	Type     string `json:"type"`
	Required bool   `json:"req"`
}
type xsdDoc struct {
	Elems   []xsdElem    `json:"elems"`
	Attrs   []xsdAttr    `json:"attrs"`
	Derived []xsdDerived `json:"derived,omitempty"`
}

// xsdDerived: a complex type derived by xs:extension, from xs:string (simpleContent) or from Base
// (complexContent), adding elements (complexContent only) and attributes.
type xsdDerived struct {
	Name    string    `json:"name"`
	Content string    `json:"content"` // simple | complex
	Elems   []xsdElem `json:"elems"`
	Attrs   []xsdAttr `json:"attrs"`
}

func (d xsdDoc) render() string {
	var b strings.Builder
	b.WriteString("<?xml version=\"1.0\" encoding=\"UTF-8\"?>\n<xs:schema xmlns:xs=\"http://www.w3.org/2001/XMLSchema\">\n")
	b.WriteString("  <xs:simpleType name=\"Code\"><xs:restriction base=\"xs:string\"><xs:maxLength value=\"5\"/></xs:restriction></xs:simpleType>\n")
	b.WriteString("  <xs:complexType name=\"Base\"><xs:sequence><xs:element name=\"id\" type=\"xs:int\"/></xs:sequence></xs:complexType>\n")
	b.WriteString("  <xs:complexType name=\"Item\">\n    <xs:sequence>\n")
	for _, e := range d.Elems {
		fmt.Fprintf(&b, "      <xs:element name=%q type=%q", e.Name, e.Type)
		if e.Min != "" {
			fmt.Fprintf(&b, " minOccurs=%q", e.Min)
		}
		if e.Max != "" {
			fmt.Fprintf(&b, " maxOccurs=%q", e.Max)
		}
		b.WriteString("/>\n")
	}
	b.WriteString("    </xs:sequence>\n")
	for _, a := range d.Attrs {
		use := ""
		if a.Required {
			use = " use=\"required\""
		}
		fmt.Fprintf(&b, "    <xs:attribute name=%q type=%q%s/>\n", a.Name, a.Type, use)
	}
	b.WriteString("  </xs:complexType>\n")
	for _, dv := range d.Derived {
		base, tag := "Base", "complexContent"
		if dv.Content == "simple" {
			base, tag = "xs:string", "simpleContent"
		}
		fmt.Fprintf(&b, "  <xs:complexType name=%q><xs:%s><xs:extension base=%q>\n", dv.Name, tag, base)
		if len(dv.Elems) > 0 {
			b.WriteString("    <xs:sequence>\n")
			for _, e := range dv.Elems {
				fmt.Fprintf(&b, "      <xs:element name=%q type=%q/>\n", e.Name, e.Type)
			}
			b.WriteString("    </xs:sequence>\n")
		}
		for _, a := range dv.Attrs {
			use := ""
			if a.Required {
				use = " use=\"required\""
			}
			fmt.Fprintf(&b, "    <xs:attribute name=%q type=%q%s/>\n", a.Name, a.Type, use)
		}
		fmt.Fprintf(&b, "  </xs:extension></xs:%s></xs:complexType>\n", tag)
	}
	b.WriteString("  <xs:element name=\"root\" type=\"Item\"/>\n</xs:schema>\n")
	return b.String()
}

func xsdDocs(tier string) []xsdDoc {
	var out []xsdDoc
	types := []string{"xs:string", "xs:int", "xs:date", "xs:decimal", "xs:boolean", "Code", "Base"}
	occ := [][2]string{{"", ""}, {"0", ""}, {"0", "unbounded"}, {"1", "unbounded"}, {"", "unbounded"}, {"0", "1"}}
	for _, t := range types {
		for _, o := range occ {
			out = append(out, xsdDoc{Elems: []xsdElem{{Name: "e1", Type: t, Min: o[0], Max: o[1]}}})
			for _, t2 := range types {
				out = append(out, xsdDoc{Elems: []xsdElem{{Name: "e1", Type: t, Min: o[0], Max: o[1]}, {Name: "e2", Type: t2}}, Attrs: []xsdAttr{{Name: "a1", Type: "xs:string", Required: true}, {Name: "a2", Type: "xs:int"}}})
			}
		}
	}
	// element names that are Sysl keywords / built-in type names, in every occurrence form
	for _, n := range []string{"date", "string", "int", "any", "type", "set"} {
		for _, o := range occ {
			out = append(out, xsdDoc{Elems: []xsdElem{{Name: n, Type: "xs:date", Min: o[0], Max: o[1]}, {Name: "e2", Type: "xs:string"}}})
		}
	}
	// types derived by extension: {simple, complex} content x 0..2 attributes x 0..1 added elements
	attrPool := []xsdAttr{{Name: "da1", Type: "xs:string", Required: true}, {Name: "da2", Type: "xs:int"}}
	for _, content := range []string{"simple", "complex"} {
		for na := 0; na <= 2; na++ {
			for ne := 0; ne <= 1; ne++ {
				if content == "simple" && ne > 0 {
					continue
				}
				dv := xsdDerived{Name: "Dv", Content: content, Attrs: attrPool[:na]}
				if ne > 0 {
					dv.Elems = []xsdElem{{Name: "extra", Type: "xs:date"}}
				}
				out = append(out, xsdDoc{Elems: []xsdElem{{Name: "e1", Type: "xs:string"}}, Derived: []xsdDerived{dv, {Name: "Dv2", Content: "complex", Attrs: attrPool[1:]}}})
			}
		}
	}
	return out
}

func checkXSD(m *sysl.Module, d xsdDoc) (string, string) {
	var app *sysl.Application
	for _, a := range m.GetApps() {
		app = a
	}
	if app == nil {
		return "no application", "no-app"
	}
	for _, n := range []string{"Item", "Base", "Code"} {
		if app.GetTypes()[n] == nil {
			return "type " + n + " is missing", "type-missing"
		}
	}
	fs := fieldsByOrigName(app.GetTypes()["Item"])
	prim := map[string]sysl.Type_Primitive{"xs:string": sysl.Type_STRING, "xs:int": sysl.Type_INT, "xs:date": sysl.Type_DATE, "xs:decimal": sysl.Type_DECIMAL, "xs:boolean": sysl.Type_BOOL}
	for _, e := range d.Elems {
		f := fs[e.Name]
		if f == nil {
			return fmt.Sprintf("element %s is missing (fields %v)", e.Name, keysOf(fs)), "element-missing"
		}
		inner, arr := elemType(f)
		wantArr := e.Max == "unbounded"
		if arr != wantArr {
			return fmt.Sprintf("element %s (min=%q max=%q): array=%v", e.Name, e.Min, e.Max, arr), "element-arrayness"
		}
		wantOpt := e.Min == "0"
		if anyOpt(f) != wantOpt {
			return fmt.Sprintf("element %s (min=%q max=%q): optional=%v", e.Name, e.Min, e.Max, anyOpt(f)), "element-optionality|max=" + e.Max
		}
		if p, ok := prim[e.Type]; ok {
			if inner.GetPrimitive() != p {
				return fmt.Sprintf("element %s type %s: kind %v", e.Name, e.Type, inner.GetPrimitive()), "element-kind"
			}
		} else if refTarget(inner) != e.Type {
			return fmt.Sprintf("element %s type %s: reference target %q", e.Name, e.Type, refTarget(inner)), "element-ref"
		}
	}
	for _, a := range d.Attrs {
		f := fs[a.Name]
		if f == nil {
			return fmt.Sprintf("attribute %s is missing", a.Name), "attribute-missing"
		}
		if f.GetOpt() == a.Required {
			return fmt.Sprintf("attribute %s required=%v: optional=%v", a.Name, a.Required, f.GetOpt()), "attribute-optionality"
		}
		if f.GetPrimitive() != prim[a.Type] {
			return fmt.Sprintf("attribute %s kind %v", a.Name, f.GetPrimitive()), "attribute-kind"
		}
	}
	if len(fs) != len(d.Elems)+len(d.Attrs) {
		return fmt.Sprintf("Item has fields %v for %d elements and %d attributes", keysOf(fs), len(d.Elems), len(d.Attrs)), "extra-fields"
	}
	for _, dv := range d.Derived {
		t := app.GetTypes()[dv.Name]
		if t == nil {
			return "derived type " + dv.Name + " is missing", "derived-type-missing"
		}
		if len(dv.Attrs)+len(dv.Elems) == 0 {
			continue // nothing added: an alias of the base is a faithful image
		}
		dfs := fieldsByOrigName(t)
		for _, a := range dv.Attrs {
			f := dfs[a.Name]
			if f == nil {
				return fmt.Sprintf("derived type %s (%sContent extension): attribute %s is missing (fields %v)", dv.Name, dv.Content, a.Name, keysOf(dfs)), "derived-attribute-missing|" + dv.Content
			}
			if f.GetOpt() == a.Required || f.GetPrimitive() != prim[a.Type] {
				return fmt.Sprintf("derived type %s: attribute %s required=%v kind %s: optional=%v kind=%v", dv.Name, a.Name, a.Required, a.Type, f.GetOpt(), f.GetPrimitive()), "derived-attribute-kind"
			}
		}
		for _, e := range dv.Elems {
			f := dfs[e.Name]
			if f == nil {
				return fmt.Sprintf("derived type %s: added element %s is missing (fields %v)", dv.Name, e.Name, keysOf(dfs)), "derived-element-missing"
			}
			if inner, _ := elemType(f); inner.GetPrimitive() != prim[e.Type] {
				return fmt.Sprintf("derived type %s: element %s kind %v", dv.Name, e.Name, inner.GetPrimitive()), "derived-element-kind"
			}
		}
		if dv.Content == "complex" && dfs["id"] == nil {
			return fmt.Sprintf("derived type %s extends Base but has no field id (fields %v)", dv.Name, keysOf(dfs)), "derived-base-field-missing"
		}
	}
	return "", ""
}

// ---- SQL (spanner dialect)

type sqlCol struct {
	Name    string `json:"name"`
	Type    string `json:"type"`
	NotNull bool   `json:"nn"`
}
type sqlTable struct {
	Name string      `json:"name"`
	Cols []sqlCol    `json:"cols"`
	PK   []string    `json:"pk"`
	FK   [][3]string `json:"fk"` // col, reftable, refcol
}
type sqlDoc struct {
	Tables []sqlTable `json:"tables"`
}

func (d sqlDoc) render() string {
	var b strings.Builder
	for _, t := range d.Tables {
		fmt.Fprintf(&b, "CREATE TABLE %s (\n", t.Name)
		for _, c := range t.Cols {
			nn := ""
			if c.NotNull {
				nn = " NOT NULL"
			}
			fmt.Fprintf(&b, "  %s %s%s,\n", c.Name, c.Type, nn)
		}
		for i, fk := range t.FK {
			fmt.Fprintf(&b, "  CONSTRAINT FK_%s_%d FOREIGN KEY (%s) REFERENCES %s (%s),\n", t.Name, i, fk[0], fk[1], fk[2])
		}
		fmt.Fprintf(&b, ") PRIMARY KEY (%s);\n", strings.Join(t.PK, ", "))
	}
	return b.String()
}

func sqlDocs(tier string) []sqlDoc {
	types := []string{"INT64", "STRING(100)", "STRING(MAX)", "BOOL", "DATE", "TIMESTAMP", "FLOAT64", "BYTES(16)", "NUMERIC"}
	var out []sqlDoc
	// packed: one table per column type pair, nullable and not, single and composite keys, foreign keys
	mk := func(off int) sqlDoc {
		var d sqlDoc
		d.Tables = append(d.Tables, sqlTable{Name: "Root", Cols: []sqlCol{{"RootId", "INT64", true}, {"Name", "STRING(50)", false}}, PK: []string{"RootId"}})
		for i, t := range types {
			t2 := types[(i+off)%len(types)]
			tb := sqlTable{Name: fmt.Sprintf("T%d", i), Cols: []sqlCol{{"Id", "INT64", true}, {"A", t, i%2 == 0}, {"B", t2, i%2 == 1}, {"RootId", "INT64", true}}, PK: []string{"Id"}}
			if i%3 == 0 {
				tb.PK = []string{"Id", "RootId"}
			}
			if i%2 == 0 {
				tb.FK = [][3]string{{"RootId", "Root", "RootId"}}
			}
			d.Tables = append(d.Tables, tb)
		}
		return d
	}
	n := 2
	if tier == "thorough" {
		n = len(types)
	}
	for off := 1; off <= n; off++ {
		out = append(out, mk(off))
	}
	return out
}

func checkSQL(m *sysl.Module, d sqlDoc) (string, string) {
	var app *sysl.Application
	for _, a := range m.GetApps() {
		app = a
	}
	if app == nil {
		return "no application", "no-app"
	}
	kind := func(t string) sysl.Type_Primitive {
		switch {
		case strings.HasPrefix(t, "INT"):
			return sysl.Type_INT
		case strings.HasPrefix(t, "STRING"):
			return sysl.Type_STRING
		case t == "BOOL":
			return sysl.Type_BOOL
		case t == "DATE":
			return sysl.Type_DATE
		case t == "TIMESTAMP":
			return sysl.Type_DATETIME
		case strings.HasPrefix(t, "FLOAT"):
			return sysl.Type_FLOAT
		case strings.HasPrefix(t, "BYTES"):
			return sysl.Type_BYTES
		case t == "NUMERIC":
			return sysl.Type_DECIMAL
		}
		return sysl.Type_NO_Primitive
	}
	for _, t := range d.Tables {
		ty := app.GetTypes()[t.Name]
		if ty == nil || ty.GetRelation() == nil {
			return "table " + t.Name + " is missing or not a table", "table-missing"
		}
		fs := ty.GetRelation().GetAttrDefs()
		fk := map[string][3]string{}
		for _, f := range t.FK {
			fk[f[0]] = f
		}
		pk := map[string]bool{}
		for _, p := range t.PK {
			pk[p] = true
		}
		for _, c := range t.Cols {
			f := fs[c.Name]
			if f == nil {
				return fmt.Sprintf("column %s.%s is missing", t.Name, c.Name), "column-missing"
			}
			if ref, isFK := fk[c.Name]; isFK {
				r := f.GetTypeRef().GetRef().GetPath()
				if len(r) != 2 || r[0] != ref[1] || r[1] != ref[2] {
					return fmt.Sprintf("column %s.%s should reference %s.%s, got %v", t.Name, c.Name, ref[1], ref[2], f.GetType()), "fk-target"
				}
			} else if f.GetPrimitive() != kind(c.Type) {
				return fmt.Sprintf("column %s.%s %s: kind %v", t.Name, c.Name, c.Type, f.GetPrimitive()), "column-kind|" + strings.SplitN(c.Type, "(", 2)[0]
			}
			if f.GetOpt() == c.NotNull {
				return fmt.Sprintf("column %s.%s NOT NULL=%v: optional=%v", t.Name, c.Name, c.NotNull, f.GetOpt()), "column-optionality"
			}
			isPK := false
			for _, e := range f.GetAttrs()["patterns"].GetA().GetElt() {
				isPK = isPK || e.GetS() == "pk"
			}
			if isPK != pk[c.Name] {
				return fmt.Sprintf("column %s.%s key=%v but ~pk=%v", t.Name, c.Name, pk[c.Name], isPK), "column-keyness"
			}
		}
		if len(fs) != len(t.Cols) {
			return fmt.Sprintf("table %s has %d columns but the type has %d fields", t.Name, len(t.Cols), len(fs)), "extra-columns"
		}
	}
	return "", ""
}

// ---- the check

type c11Case struct {
	OA  *oaDoc  `json:"oa,omitempty"`
	XSD *xsdDoc `json:"xsd,omitempty"`
	SQL *sqlDoc `json:"sql,omitempty"`
}

func (c11) Bounds(tier string) map[string]interface{} {
	return map[string]interface{}{"openapi_docs": len(oaDocs(tier)), "xsd_docs": len(xsdDocs(tier)), "sql_docs": len(sqlDocs(tier))}
}

// packOA: the units of many small documents in few large ones (OpenAPI 3 import costs seconds
// per document whatever its size): schemas and paths are renamed apart.
func packOA(docs []oaDoc, version, schemasPer, opsPer int) []oaDoc {
	var out []oaDoc
	cur := oaDoc{Version: version}
	flush := func() {
		if len(cur.Schemas)+len(cur.Ops) > 0 {
			out = append(out, cur)
		}
		cur = oaDoc{Version: version}
	}
	n := 0
	for _, d := range docs {
		if d.Version != version {
			continue
		}
		for _, sc := range d.Schemas {
			sc.Name = fmt.Sprintf("%s%d", sc.Name, n)
			n++
			cur.Schemas = append(cur.Schemas, sc)
		}
		for _, op := range d.Ops {
			op.Path = fmt.Sprintf("/u%d%s", n, op.Path) // one prefix per document: its operations keep sharing paths
			cur.Ops = append(cur.Ops, op)
		}
		n++
		if len(cur.Schemas) >= schemasPer || len(cur.Ops) >= opsPer {
			flush()
		}
	}
	flush()
	return out
}

func (c11) Cases(tier string, emit func(string, interface{})) {
	all := oaDocs(tier)
	for _, d := range all {
		d := d
		if d.Version == 2 {
			emit("openapi2", c11Case{OA: &d})
		}
	}
	for _, d := range packOA(all, 2, 80, 40) {
		d := d
		emit("openapi2-packed", c11Case{OA: &d})
	}
	per, ops := 120, 60
	if tier == "thorough" {
		per, ops = 60, 30
	}
	for _, d := range packOA(all, 3, per, ops) {
		d := d
		emit("openapi3-packed", c11Case{OA: &d})
	}
	// a few OpenAPI 3 documents alone (first of each family)
	seen := 0
	for _, d := range all {
		d := d
		if d.Version == 3 && seen < 3 && (len(d.Ops) > 0 || len(d.Schemas[0].Props) == 2) {
			seen++
			emit("openapi3", c11Case{OA: &d})
		}
	}
	for _, d := range xsdDocs(tier) {
		d := d
		emit("xsd", c11Case{XSD: &d})
	}
	for _, d := range sqlDocs(tier) {
		d := d
		emit("sql", c11Case{SQL: &d})
	}
}

func (c11) Run(c core.Case) core.Outcome {
	var cs c11Case
	_ = json.Unmarshal(c.Data, &cs)
	var o core.Outcome
	o.Class = "ok"
	var name, content, format string
	switch {
	case cs.OA != nil:
		name, content = "doc.yaml", cs.OA.render()
	case cs.XSD != nil:
		name, content = "doc.xsd", cs.XSD.render()
	case cs.SQL != nil:
		name, content, format = "doc.sql", cs.SQL.render(), "spannerSQL"
	}
	fail := func(sig, msg string, extra string) core.Outcome {
		o.Class = "violation"
		o.Violation = fmt.Sprintf("[%s] %s\n--- document ---\n%s\n--- imported ---\n%s", c.Kind, msg, content, extra)
		o.Sig = c.Kind + "|" + sig
		return o
	}
	text, errs := runImport(name, content, format)
	if errs != "" {
		if strings.HasPrefix(errs, "PANIC") {
			msg, frame := core.CrashSig("panic: " + strings.TrimPrefix(errs, "PANIC: "))
			return fail("import-crash|"+frame+"|"+msg, "import panicked: "+strings.SplitN(errs, "\n", 2)[0], "")
		}
		return fail("import-fails|"+core.MaskMsg(firstWords(errs, 6)), "import of a well-formed document fails: "+errs, "")
	}
	m, err, crash := compileFiles(filesCase{Root: "imp.sysl", Files: map[string]string{"imp.sysl": text}}, parse.Settings{})
	if crash != "" {
		_, frame := core.CrashSig(crash)
		return fail("output-crashes-compiler|"+frame, "the imported text crashes the compiler", text)
	}
	if err != nil {
		sig := "output-does-not-compile"
		if cs.XSD != nil {
			// the recorded finding is specific to an explicit maxOccurs="1"
			for _, e := range cs.XSD.Elems {
				if e.Max == "1" {
					sig = "output-does-not-compile|explicit-maxOccurs-1"
				}
			}
		}
		return fail(sig, "the imported text does not compile: "+err.Error(), text)
	}
	var problem, class string
	switch {
	case cs.OA != nil:
		problem, class = checkOADoc(m, *cs.OA)
	case cs.XSD != nil:
		problem, class = checkXSD(m, *cs.XSD)
	case cs.SQL != nil:
		problem, class = checkSQL(m, *cs.SQL)
	}
	if problem != "" {
		return fail("incomplete|"+class, problem, text)
	}
	if c.Kind == "openapi3-packed" {
		o.NonTrivial = core.Hash(content)
		return o // the repeated import and the import-statement path are exercised by the unpacked documents
	}
	text2, errs2 := runImport(name, content, format)
	if errs2 != "" || text2 != text {
		return fail("second-import-differs", "running the import again gives different text: "+firstDiff(text, text2)+errs2, text)
	}
	// through an import statement
	if cs.SQL == nil {
		files := map[string]string{"root.sysl": "import " + name + " as Ns :: Imp\nRoot:\n    ...\n", name: content}
		m2, err2, crash2 := compileFiles(filesCase{Root: "root.sysl", Files: files}, parse.Settings{})
		switch {
		case crash2 != "":
			_, frame := core.CrashSig(crash2)
			return fail("import-statement-crash|"+frame, "importing the document through an import statement crashes the compiler", text)
		case err2 != nil && cs.XSD == nil:
			return fail("import-statement-fails", "importing the document through an import statement fails: "+err2.Error(), text)
		case err2 == nil && cs.OA != nil:
			if m2.GetApps()["Ns :: Imp"] == nil {
				return fail("import-statement-app-missing", fmt.Sprintf("import ... as Ns :: Imp does not produce that application (apps %d)", len(m2.GetApps())), text)
			}
		}
	}
	if len(m.GetApps()) > 0 {
		o.NonTrivial = core.Hash(content)
	}
	return o
}
