// Package core is the shared driver of every check: case enumeration on the
// master side, execution in worker subprocesses (so that crashes, os.Exit and
// runaway recursion are observable as outcomes instead of killing the check),
// violation confirmation, known-findings filtering, replay artefacts, evidence.
package core

import (
	"bufio"
	"crypto/sha256"
	"encoding/hex"
	"encoding/json"
	"fmt"
	"io"
	"os"
	"os/exec"
	"path/filepath"
	"runtime"
	"sort"
	"strconv"
	"strings"
	"sync"
	"syscall"
	"time"
)

// Case is one point of the explored space. Data is property specific.
type Case struct {
	N    int             `json:"n"`
	Kind string          `json:"kind"` // sub-space / sub-check name
	Data json.RawMessage `json:"data"`
}

// Outcome is what a worker observed for one case.
// AlsoViolation is a secondary violation of a case.
type AlsoViolation struct {
	Sig       string `json:"sig"`
	Violation string `json:"violation"`
}

type Outcome struct {
	N int `json:"n"`
	// Class is a short label for the outcome histogram ("ok", "error:syntax", ...).
	Class string `json:"class"`
	// NonTrivial is a canonical key of the case when it is non-trivial by the
	// property's rule, "" otherwise. Distinct keys are counted.
	NonTrivial string `json:"nontrivial,omitempty"`
	// Violation: human readable description, "" if the property held.
	Violation string `json:"violation,omitempty"`
	// Sig identifies the violation for the known-findings filter.
	Sig string `json:"sig,omitempty"`
	// Gap: the oracle could not decide this case (reported as infrastructure error).
	Gap string `json:"gap,omitempty"`
	// Counters for model-checking style checks (summed into evidence).
	States      int  `json:"states,omitempty"`
	Transitions int  `json:"transitions,omitempty"`
	Traces      int  `json:"traces,omitempty"`
	Capped      bool `json:"capped,omitempty"`
	// Witnessed: the violation text is a self-certifying witness from a monitor whose executions are not
	// under the harness's control (a Go race detector report: no false positives, but it needs the racy
	// interleaving to occur). Such a violation is reported even if re-execution does not reproduce it.
	Witnessed bool `json:"witnessed,omitempty"`
	// Also: further violations found in the same case (a case reports one primary violation; the others are
	// still matched against the recorded findings, and reported if they are not recorded)
	Also []AlsoViolation `json:"also,omitempty"`
	// Extra: free-form sub-counters summed by key.
	Extra map[string]int `json:"extra,omitempty"`
	// Detail is stored in the replay artefact.
	Detail json.RawMessage `json:"detail,omitempty"`
}

// Prop is a property check.
type Prop interface {
	ID() string
	Level() string // evidence level
	Rule() string  // what is enumerated, and what makes a case non-trivial
	Assumptions() []string
	// Cases enumerates the complete case list of the tier in canonical order.
	Cases(tier string, emit func(kind string, data interface{}))
	// Run executes one case against the real code (in a worker process).
	Run(c Case) Outcome
}

// Optional interfaces.
type WorkerIniter interface{ InitWorker() }
type Timeouter interface{ CaseTimeout() time.Duration }
type Parallelism interface{ Workers(tier string) int }
type BinaryChooser interface{ Binary() string } // "", "ov"
type Bounder interface {
	Bounds(tier string) map[string]interface{}
}
type Finisher interface {
	// Finish runs on the master after all cases; may add violations (cross-case oracles).
	Finish(tier string, outs []Outcome) []Outcome
}

var registry = map[string]Prop{}

// Subcommands: extra internal sub-commands of the binary (name -> handler).
var Subcommands = map[string]func(args []string){}

func Register(p Prop)    { registry[p.ID()] = p }
func Get(id string) Prop { return registry[id] }
func IDs() []string {
	var r []string
	for k := range registry {
		r = append(r, k)
	}
	sort.Strings(r)
	return r
}

func VerifDir() string {
	if d := os.Getenv("VERIF_DIR"); d != "" {
		return d
	}
	return "/verif"
}

func Hash(s string) string {
	h := sha256.Sum256([]byte(s))
	return hex.EncodeToString(h[:8])
}

// ---------------------------------------------------------------------------------------------
// Worker side

var protoOut *os.File

// PinMapOrder is set by the overlay binary: pins Go's map iteration start (MAPORD seam) so that
// code under test that ranges over maps is deterministic in every check except those that vary it.
var PinMapOrder func()

// WorkerMain runs the worker loop: one JSON case per line on stdin, one
// "\x01END <json>" line per case on the private protocol fd.
func WorkerMain(id string) {
	p := Get(id)
	if p == nil {
		fmt.Fprintln(os.Stderr, "unknown property", id)
		os.Exit(3)
	}
	// Library code writes to os.Stdout (operation summary, printers). Keep the
	// protocol on a private descriptor and send fd 1 to /dev/null.
	protoOut = os.NewFile(3, "proto")
	syscall.CloseOnExec(3) // child processes of a worker must not hold the protocol pipe open
	if protoOut == nil {
		fmt.Fprintln(os.Stderr, "no protocol fd")
		os.Exit(3)
	}
	if PinMapOrder != nil {
		PinMapOrder()
	}
	if wi, ok := p.(WorkerIniter); ok {
		wi.InitWorker()
	}
	in := bufio.NewReaderSize(os.Stdin, 1<<20)
	w := bufio.NewWriter(protoOut)
	for {
		line, err := in.ReadBytes('\n')
		if len(line) > 0 {
			var c Case
			if e := json.Unmarshal(line, &c); e != nil {
				fmt.Fprintln(os.Stderr, "bad case:", e)
				os.Exit(3)
			}
			fmt.Fprintf(w, "BEGIN %d\n", c.N)
			w.Flush()
			o := runGuarded(p, c)
			o.N = c.N
			b, _ := json.Marshal(o)
			fmt.Fprintf(w, "END %s\n", b)
			w.Flush()
		}
		if err != nil {
			return
		}
	}
}

// runGuarded calls p.Run. A panic on the calling goroutine is NOT recovered here:
// properties decide themselves what a panic means (for C01 it is the violation).
func runGuarded(p Prop, c Case) Outcome { return p.Run(c) }

// ---------------------------------------------------------------------------------------------
// Master side

type worker struct {
	cmd    *exec.Cmd
	stdin  io.WriteCloser
	out    *bufio.Reader
	stderr *tailBuf
	proto  *os.File
}

type tailBuf struct {
	mu  sync.Mutex
	buf []byte
}

func (t *tailBuf) Write(p []byte) (int, error) {
	t.mu.Lock()
	defer t.mu.Unlock()
	t.buf = append(t.buf, p...)
	if len(t.buf) > 64<<10 {
		// keep head (panic message) and tail
		head := append([]byte{}, t.buf[:16<<10]...)
		tail := t.buf[len(t.buf)-(16<<10):]
		t.buf = append(append(head, []byte("\n...[snip]...\n")...), tail...)
	}
	return len(p), nil
}
func (t *tailBuf) String() string { t.mu.Lock(); defer t.mu.Unlock(); return string(t.buf) }
func (t *tailBuf) Reset()         { t.mu.Lock(); t.buf = t.buf[:0]; t.mu.Unlock() }

func startWorker(bin, id string) (*worker, error) {
	pr, pw, err := os.Pipe()
	if err != nil {
		return nil, err
	}
	cmd := exec.Command(bin, "worker", id)
	cmd.ExtraFiles = []*os.File{pw}
	cmd.Env = append(os.Environ(), "GOTRACEBACK=all", "GOMEMLIMIT=3GiB")
	cmd.SysProcAttr = &syscall.SysProcAttr{Setpgid: true, Pdeathsig: syscall.SIGKILL} // a kill reaches the worker's own children; no orphans if the master is killed
	devnull, _ := os.OpenFile(os.DevNull, os.O_WRONLY, 0)
	cmd.Stdout = devnull
	tb := &tailBuf{}
	cmd.Stderr = tb
	stdin, err := cmd.StdinPipe()
	if err != nil {
		return nil, err
	}
	if err := cmd.Start(); err != nil {
		return nil, err
	}
	pw.Close()
	devnull.Close()
	return &worker{cmd: cmd, stdin: stdin, out: bufio.NewReaderSize(pr, 1<<20), stderr: tb, proto: pr}, nil
}

func (w *worker) kill() {
	if w == nil {
		return
	}
	w.stdin.Close()
	_ = syscall.Kill(-w.cmd.Process.Pid, syscall.SIGKILL)
	_ = w.cmd.Process.Kill()
	_ = w.cmd.Wait()
	w.proto.Close()
}

// exec runs one case on the worker. died=true when the worker process ended
// (crash, os.Exit, timeout kill) before answering.
func (w *worker) exec(c Case, timeout time.Duration) (o Outcome, died bool, why string) {
	b, _ := json.Marshal(c)
	b = append(b, '\n')
	w.stderr.Reset()
	if _, err := w.stdin.Write(b); err != nil {
		return o, true, "write: " + err.Error()
	}
	type res struct {
		o   Outcome
		err error
	}
	ch := make(chan res, 1)
	go func() {
		for {
			line, err := w.out.ReadString('\n')
			if err != nil {
				ch <- res{err: err}
				return
			}
			if strings.HasPrefix(line, "END ") {
				var o Outcome
				if e := json.Unmarshal([]byte(line[4:]), &o); e != nil {
					ch <- res{err: e}
					return
				}
				ch <- res{o: o}
				return
			}
		}
	}()
	select {
	case r := <-ch:
		if r.err != nil {
			_ = w.cmd.Wait()
			code := -1
			if w.cmd.ProcessState != nil {
				code = w.cmd.ProcessState.ExitCode()
			}
			return o, true, fmt.Sprintf("exit=%d", code)
		}
		return r.o, false, ""
	case <-time.After(timeout):
		_ = syscall.Kill(-w.cmd.Process.Pid, syscall.SIGKILL)
		_ = w.cmd.Process.Kill()
		<-ch
		_ = w.cmd.Wait()
		return o, true, "timeout"
	}
}

// CrashSig extracts a stable signature from a Go crash dump: message class and the
// first frame inside the sysl module (function name, no line numbers).
func CrashSig(stderr string) (msg, frame string) {
	lines := strings.Split(stderr, "\n")
	for i, l := range lines {
		if strings.HasPrefix(l, "panic: ") || strings.HasPrefix(l, "fatal error: ") {
			msg = l
			if strings.HasPrefix(l, "panic: ") && strings.Contains(l, "[recovered]") {
				continue
			}
			lines = lines[i:]
			break
		}
	}
	for _, l := range lines {
		if strings.HasPrefix(l, "github.com/anz-bank/sysl/") && strings.Contains(l, "(") {
			f := l[:strings.LastIndex(l, "(")]
			f = strings.TrimPrefix(f, "github.com/anz-bank/sysl/")
			if strings.Contains(f, "verifrt") {
				continue
			}
			frame = f
			break
		}
	}
	return MaskMsg(msg), frame
}

// MaskMsg masks quoted strings, numbers and addresses so that a message class is stable.
func MaskMsg(s string) string {
	var b strings.Builder
	inq := byte(0)
	for i := 0; i < len(s); i++ {
		c := s[i]
		if inq != 0 {
			if c == inq {
				inq = 0
				b.WriteByte('"')
			}
			continue
		}
		if c == '"' || c == '\'' || c == '`' {
			inq = c
			b.WriteByte('"')
			continue
		}
		if c >= '0' && c <= '9' {
			if n := b.Len(); n > 0 && b.String()[n-1] == '#' {
				continue
			}
			b.WriteByte('#')
			continue
		}
		b.WriteByte(c)
	}
	r := b.String()
	if len(r) > 160 {
		r = r[:160]
	}
	return r
}

type KnownFinding struct {
	Property string `json:"property"`
	Sig      string `json:"sig"`
	What     string `json:"what"`
}
type FixedFinding struct {
	Property string `json:"property"`
	Commit   string `json:"commit"`
	What     string `json:"what"`
}
type KnownFile struct {
	Known []KnownFinding `json:"known_findings"`
	Fixed []FixedFinding `json:"fixed"`
}

func loadKnown() KnownFile {
	var k KnownFile
	b, err := os.ReadFile(filepath.Join(VerifDir(), "known_findings.json"))
	if err == nil {
		_ = json.Unmarshal(b, &k)
	}
	return k
}

type Replay struct {
	Property  string          `json:"property"`
	Case      Case            `json:"case"`
	Violation string          `json:"violation"`
	Sig       string          `json:"sig"`
	Stderr    string          `json:"stderr,omitempty"`
	Detail    json.RawMessage `json:"detail,omitempty"`
	Command   string          `json:"command"`
	Confirmed string          `json:"confirmed"`
}

type runOpts struct {
	tier    string
	bin     string
	workers int
}

func env(name, def string) string {
	if v := os.Getenv(name); v != "" {
		return v
	}
	return def
}

// MasterMain runs a property check; returns the process exit code.
func MasterMain(id, tier, self string) int {
	start := time.Now()
	p := Get(id)
	if p == nil {
		fmt.Println("unknown property", id)
		return 2
	}
	seed, _ := strconv.Atoi(env("VERIF_SEED", "0"))
	nw := runtime.NumCPU()
	if nw > 16 {
		nw = 16
	}
	if pp, ok := p.(Parallelism); ok {
		nw = pp.Workers(tier)
	}
	if v := os.Getenv("VERIF_WORKERS"); v != "" {
		nw, _ = strconv.Atoi(v)
	}
	timeout := 120 * time.Second
	if t, ok := p.(Timeouter); ok {
		timeout = t.CaseTimeout()
	}
	var deadline time.Time
	if v := os.Getenv("VERIF_DEADLINE_S"); v != "" {
		s, _ := strconv.Atoi(v)
		deadline = start.Add(time.Duration(s) * time.Second)
	}

	// Enumerate all cases up front (canonical order, simplest first).
	var cases []Case
	p.Cases(tier, func(kind string, data interface{}) {
		b, err := json.Marshal(data)
		if err != nil {
			panic(err)
		}
		cases = append(cases, Case{N: len(cases), Kind: kind, Data: b})
	})
	if len(cases) == 0 {
		fmt.Println("INFRA: no cases enumerated")
		return 2
	}
	total := len(cases)
	kinds := map[string]int{}
	for _, c := range cases {
		kinds[c.Kind]++
	}
	// Optional slicing for debugging
	if v := os.Getenv("VERIF_LIMIT"); v != "" {
		n, _ := strconv.Atoi(v)
		if n < len(cases) {
			cases = cases[:n]
		}
	}

	outs := make([]Outcome, len(cases))
	done := make([]bool, len(cases))
	stderrs := map[int]string{}
	var mu sync.Mutex
	next := 0
	capped := false
	var wg sync.WaitGroup
	for wi := 0; wi < nw; wi++ {
		wg.Add(1)
		go func(wi int) {
			defer wg.Done()
			var w *worker
			defer func() { w.kill() }()
			for {
				mu.Lock()
				if next >= len(cases) || (!deadline.IsZero() && time.Now().After(deadline)) {
					if next < len(cases) {
						capped = true
					}
					mu.Unlock()
					return
				}
				i := next
				next++
				mu.Unlock()
				if w == nil {
					var err error
					w, err = startWorker(self, id)
					if err != nil {
						fmt.Println("INFRA: cannot start worker:", err)
						os.Exit(2)
					}
				}
				o, died, why := w.exec(cases[i], timeout)
				if died {
					se := w.stderr.String()
					w.kill()
					w = nil
					o = deathOutcome(cases[i], why, se)
					mu.Lock()
					stderrs[i] = se
					mu.Unlock()
				}
				o.N = i
				mu.Lock()
				outs[i] = o
				done[i] = true
				mu.Unlock()
			}
		}(wi)
	}
	wg.Wait()

	var all []Outcome
	for i := range outs {
		if done[i] {
			all = append(all, outs[i])
		}
	}
	if f, ok := p.(Finisher); ok {
		all = f.Finish(tier, all)
	}

	if d := os.Getenv("VERIF_DUMP"); d != "" {
		for _, o := range all {
			if d == "1" || strings.HasPrefix(o.Class, d) {
				data := ""
				if o.N >= 0 && o.N < len(cases) {
					data = string(truncJSON(cases[o.N].Data))
				}
				fmt.Printf("DUMP %d %s %s viol=%q\n", o.N, o.Class, data, oneLine(o.Violation, 300))
			}
		}
	}
	// Aggregate.
	hist := map[string]int{}
	nontriv := map[string]bool{}
	extra := map[string]int{}
	states, trans, traces := 0, 0, 0
	var viol []Outcome
	var gaps []Outcome
	for _, o := range all {
		hist[o.Class]++
		if o.NonTrivial != "" {
			nontriv[o.NonTrivial] = true
		}
		states += o.States
		trans += o.Transitions
		traces += o.Traces
		if o.Capped {
			capped = true
		}
		for k, v := range o.Extra {
			extra[k] += v
		}
		if o.Violation != "" {
			viol = append(viol, o)
			for _, a := range o.Also {
				p := o
				p.Sig, p.Violation, p.Also = a.Sig, a.Violation, nil
				viol = append(viol, p)
			}
		}
		if o.Gap != "" {
			gaps = append(gaps, o)
		}
	}

	// Confirm, classify and report violations. One report per signature.
	known := loadKnown()
	bySig := map[string][]Outcome{}
	var sigOrder []string
	for _, o := range viol {
		if _, ok := bySig[o.Sig]; !ok {
			sigOrder = append(sigOrder, o.Sig)
		}
		bySig[o.Sig] = append(bySig[o.Sig], o)
	}
	exit := 0
	nViol := 0
	knownHit := map[string]int{}
	flaky := 0
	for _, sig := range sigOrder {
		os_ := bySig[sig]
		o := os_[0]
		kf := matchKnown(known, id, sig)
		if kf != nil {
			knownHit[sig] = len(os_)
			fmt.Printf("KNOWN-FINDING: property=%s %s [sig=%s, %d case(s)]\n", id, kf.What, sig, len(os_))
			continue
		}
		// confirm: 5 re-executions in fresh workers (cases with N<0 come from Finish: cross-case, not re-run)
		conf := "cross-case oracle (not re-executed)"
		if o.N >= 0 && o.N < len(cases) {
			same := 0
			const reps = 5
			for r := 0; r < reps; r++ {
				w, err := startWorker(self, id)
				if err != nil {
					break
				}
				o2, died, why := w.exec(cases[o.N], timeout)
				if died {
					o2 = deathOutcome(cases[o.N], why, w.stderr.String())
				}
				w.kill()
				if o2.Violation != "" && o2.Sig == o.Sig {
					same++
				} else {
					for _, a := range o2.Also {
						if a.Sig == o.Sig {
							same++
							break
						}
					}
				}
			}
			conf = fmt.Sprintf("%d/%d", same, reps)
			if same != reps && o.Witnessed {
				conf += " (self-certifying report of a free-running monitor)"
			} else if same != reps {
				flaky++
				fmt.Printf("FLAKY property=%s sig=%s reproduced %s: %s\n", id, sig, conf, o.Violation)
				writeReplay(id, cases, o, stderrs[o.N], conf, "flaky-")
				continue
			}
		}
		path := writeReplay(id, cases, o, stderrs[o.N], conf, "")
		nViol += len(os_)
		exit = 1
		fmt.Printf("VIOLATION property=%s replay=%s\n", id, path)
		fmt.Printf("  sig=%s cases=%d first: %s\n", sig, len(os_), oneLine(o.Violation, 400))
	}
	for _, o := range gaps {
		fmt.Printf("ORACLE-GAP property=%s case=%d: %s\n", id, o.N, oneLine(o.Gap, 300))
	}

	// Samples: first, middle, last case + first non-trivial.
	var samples []interface{}
	pick := []int{0, len(cases) / 2, len(cases) - 1}
	seen := map[int]bool{}
	for _, i := range pick {
		if i >= 0 && i < len(cases) && !seen[i] && done[i] {
			seen[i] = true
			samples = append(samples, map[string]interface{}{"kind": cases[i].Kind, "case": json.RawMessage(truncJSON(cases[i].Data)), "outcome": outs[i].Class})
		}
	}
	bounds := map[string]interface{}{}
	if b, ok := p.(Bounder); ok {
		bounds = b.Bounds(tier)
	}
	exhaustive := !capped && len(cases) == total
	cov := map[string]interface{}{
		"evaluations":         len(all),
		"distinct_nontrivial": len(nontriv),
		"rule":                p.Rule(),
		"samples":             samples,
		"exhaustive":          exhaustive,
		"cases_enumerated":    total,
		"outcome_histogram":   hist,
		"bounds":              bounds,
		"known_findings_hit":  knownHit,
		"workers":             nw,
		"cases_by_kind":       kinds,
	}
	if len(extra) > 0 {
		cov["counters"] = extra
	}
	if p.Level() == "model_checking" {
		cov["states"] = states
		cov["transitions"] = trans
		cov["traces_validated_against_impl"] = traces
	} else if states > 0 {
		cov["states"] = states
		cov["transitions"] = trans
		cov["traces_validated_against_impl"] = traces
	}
	ev := map[string]interface{}{
		"property_id": id,
		"tier":        tier,
		"seed":        seed,
		"level":       p.Level(),
		"coverage":    cov,
		"assumptions": p.Assumptions(),
		"wall_s":      time.Since(start).Seconds(),
		"violations":  nViol,
	}
	eb, _ := json.MarshalIndent(ev, "", " ")
	_ = os.MkdirAll(filepath.Join(VerifDir(), "evidence"), 0o755)
	if err := os.WriteFile(filepath.Join(VerifDir(), "evidence", id+".json"), eb, 0o644); err != nil {
		fmt.Println("INFRA: cannot write evidence:", err)
		return 2
	}
	keys := make([]string, 0, len(hist))
	for k := range hist {
		keys = append(keys, k)
	}
	sort.Strings(keys)
	fmt.Printf("%s tier=%s cases=%d/%d nontrivial=%d states=%d transitions=%d exhaustive=%v wall=%.1fs\n",
		id, tier, len(all), total, len(nontriv), states, trans, exhaustive, time.Since(start).Seconds())
	for _, k := range keys {
		fmt.Printf("  outcome %-40s %d\n", k, hist[k])
	}
	fmt.Printf("  kinds %v\n", kinds)
	if exit == 0 && (len(gaps) > 0 || flaky > 0) {
		return 2
	}
	if exit == 0 && len(nontriv) < 2 {
		fmt.Println("INFRA: vacuous run (fewer than 2 non-trivial cases)")
		return 2
	}
	return exit
}

func truncJSON(b []byte) []byte {
	if len(b) <= 1500 {
		return b
	}
	s, _ := json.Marshal(string(b[:1500]) + "...")
	return s
}

func oneLine(s string, n int) string {
	s = strings.ReplaceAll(s, "\n", "\\n")
	if len(s) > n {
		s = s[:n] + "..."
	}
	return s
}

func matchKnown(k KnownFile, id, sig string) *KnownFinding {
	for i := range k.Known {
		if k.Known[i].Property == id && k.Known[i].Sig == sig {
			return &k.Known[i]
		}
	}
	return nil
}

func deathOutcome(c Case, why, stderr string) Outcome {
	msg, frame := CrashSig(stderr)
	cls := "crash"
	if why == "timeout" {
		cls = "timeout"
	}
	if msg == "" && why != "timeout" {
		// os.Exit / logrus.Fatal inside library code
		cls = "exit"
		msg = why
	}
	return Outcome{
		N:         c.N,
		Class:     cls,
		Violation: fmt.Sprintf("worker died (%s) on case %d [%s]: %s at %s", why, c.N, c.Kind, msg, frame),
		Sig:       cls + "|" + frame + "|" + msg,
	}
}

func writeReplay(id string, cases []Case, o Outcome, stderr, conf, prefix string) string {
	dir := filepath.Join(VerifDir(), "replays", id)
	_ = os.MkdirAll(dir, 0o755)
	r := Replay{Property: id, Violation: o.Violation, Sig: o.Sig, Stderr: stderr, Detail: o.Detail, Confirmed: conf}
	if o.N >= 0 && o.N < len(cases) {
		r.Case = cases[o.N]
	}
	path := filepath.Join(dir, prefix+Hash(o.Sig)+".json")
	r.Command = "cd /verif && ./vcheck replay " + path
	b, _ := json.MarshalIndent(r, "", " ")
	_ = os.WriteFile(path, b, 0o644)
	return path
}

// ReplayMain re-executes the case stored in a replay artefact, in a worker, without the explorer.
func ReplayMain(path, self string) int {
	b, err := os.ReadFile(path)
	if err != nil {
		fmt.Println(err)
		return 2
	}
	var r Replay
	if err := json.Unmarshal(b, &r); err != nil {
		fmt.Println(err)
		return 2
	}
	p := Get(r.Property)
	if p == nil {
		want := filepath.Join(filepath.Dir(self), "vcheck-ov")
		if _, err := os.Stat(want); err == nil && self != want {
			cmd := exec.Command(want, "replay", path)
			cmd.Stdout, cmd.Stderr = os.Stdout, os.Stderr
			_ = cmd.Run()
			return cmd.ProcessState.ExitCode()
		}
		fmt.Println("unknown property", r.Property)
		return 2
	}
	if r.Case.Data == nil {
		fmt.Println("replay has no single case (cross-case oracle); violation was:", r.Violation)
		return 2
	}
	timeout := 120 * time.Second
	if t, ok := p.(Timeouter); ok {
		timeout = t.CaseTimeout()
	}
	if bc, ok := p.(BinaryChooser); ok && bc.Binary() != "" {
		self = filepath.Join(filepath.Dir(self), "vcheck-"+bc.Binary())
	}
	w, err := startWorker(self, r.Property)
	if err != nil {
		fmt.Println(err)
		return 2
	}
	o, died, why := w.exec(r.Case, timeout)
	if died {
		o = deathOutcome(r.Case, why, w.stderr.String())
		fmt.Println(w.stderr.String())
	}
	w.kill()
	if o.Violation != "" {
		fmt.Printf("VIOLATION property=%s replay=%s\n  %s\n", r.Property, path, o.Violation)
		return 1
	}
	fmt.Printf("replay: property held on this case (class %s)\n", o.Class)
	return 0
}

// SyslBin is the sysl CLI built from /repo's working tree by run.sh.
func SyslBin() string { return filepath.Join(VerifDir(), ".cache", "bin", "sysl") }

// RunCLI runs the sysl binary in dir with a deadline; returns exit code (-1 = killed on deadline), stdout, stderr.
func RunCLI(dir string, timeout time.Duration, args ...string) (int, string, string) {
	cmd := exec.Command(SyslBin(), args...)
	cmd.Dir = dir
	cmd.Env = append(os.Environ(), "GOTRACEBACK=all", "SYSL_PLANTUML=http://localhost:1", "HOME="+dir)
	var so, se strings.Builder
	cmd.Stdout = &so
	cmd.Stderr = &se
	if err := cmd.Start(); err != nil {
		return -2, "", err.Error()
	}
	done := make(chan error, 1)
	go func() { done <- cmd.Wait() }()
	select {
	case <-done:
		return cmd.ProcessState.ExitCode(), so.String(), se.String()
	case <-time.After(timeout):
		_ = cmd.Process.Kill()
		<-done
		return -1, so.String(), se.String()
	}
}

// CrashText reports whether CLI stderr/stdout carries a Go crash dump.
func CrashText(s string) bool {
	return strings.Contains(s, "panic: ") || strings.Contains(s, "fatal error: ") || strings.Contains(s, "goroutine 1 [") || strings.Contains(s, "[recovered]")
}

var knownOnce sync.Once
var knownCache KnownFile

// IsKnownSig reports whether (property, signature) is a listed known finding. Checks use it to look
// past a known problem for further, unlisted ones in the same case (the known one is still reported
// when nothing else is wrong).
func IsKnownSig(prop, sig string) bool {
	knownOnce.Do(func() { knownCache = loadKnown() })
	return matchKnown(knownCache, prop, sig) != nil
}
