//go:build verifov

// Package sched is the stateless depth-first schedule explorer (prefix replay) over the
// cooperative scheduler runtime, with optional global-state pruning and preemption bounding.
package sched

import (
	"fmt"
	"os"

	"github.com/anz-bank/sysl/pkg/verifrt"
)

// Body starts the root threads of one execution on a fresh scheduler and returns a function
// that collects the observation once all threads are done.
type Body func(s *verifrt.Sched) (observe func() string)

type Point struct {
	Enabled int
	Running bool // the previously running thread is still enabled (switching away is a preemption)
	Chosen  int
	Desc    []string
}

type Exec struct {
	Choices []int
	Points  []Point
	Obs     string
	Res     verifrt.RunResult
	Pruned  bool
}

type Explorer struct {
	Body        Body
	Prune       bool // global-state pruning (sound only if Key() determines the future)
	Bound       int  // preemption bound; <0 = unbounded
	MaxExecs    int
	States      map[string]bool
	Transitions int
	Execs       int
	Complete    int
	Outcomes    map[string]int
	FirstTrace  map[string][]int // outcome -> choices of the first execution that produced it
	Deadlocks   [][]int
	Horizons    [][]int
	Capped      bool
	Diverged    string
}

func New(body Body) *Explorer {
	return &Explorer{Body: body, Bound: -1, States: map[string]bool{}, Outcomes: map[string]int{}, FirstTrace: map[string][]int{}, MaxExecs: 2000000}
}

// RunOne executes one schedule: replays prefix, then choice 0 to completion.
func (e *Explorer) RunOne(prefix []int, record bool) (x Exec) {
	s := verifrt.New()
	verifrt.Install(s)
	defer verifrt.Uninstall()
	observe := e.Body(s)
	i := 0
	x.Res = s.Run(func(si verifrt.StepInfo) int {
		c := 0
		if i < len(prefix) {
			c = prefix[i]
			if c >= len(si.Enabled) {
				e.Diverged = fmt.Sprintf("replaying prefix %v: choice %d at point %d but only %d enabled", prefix, c, i, len(si.Enabled))
				return -1
			}
		} else if e.Prune && record {
			k := s.Key()
			if e.States[k] {
				x.Pruned = true
				return -1
			}
			e.States[k] = true
		}
		if i >= len(prefix)-1 && record {
			e.Transitions++
		}
		p := Point{Enabled: len(si.Enabled), Running: si.Running != nil, Chosen: c}
		if record && len(x.Points) < 4096 {
			for _, t := range si.Enabled {
				p.Desc = append(p.Desc, t.ID+"@"+t.Pending.Kind+":"+t.Pending.Arg)
			}
		}
		x.Points = append(x.Points, p)
		x.Choices = append(x.Choices, c)
		i++
		return c
	})
	if !x.Res.Aborted {
		x.Obs = observe()
	}
	return x
}

func (e *Explorer) preemptionsBefore(x *Exec, i int) int {
	n := 0
	for j := 0; j < i; j++ {
		if x.Points[j].Running && x.Points[j].Chosen != 0 {
			n++
		}
	}
	return n
}

// Explore enumerates all schedules (within the bound).
func (e *Explorer) Explore() {
	stack := [][]int{{}}
	for len(stack) > 0 {
		prefix := stack[len(stack)-1]
		stack = stack[:len(stack)-1]
		if e.Execs >= e.MaxExecs {
			e.Capped = true
			return
		}
		x := e.RunOne(prefix, true)
		e.Execs++
		if os.Getenv("VERIF_DEBUG") != "" {
			fmt.Fprintf(os.Stderr, "exec prefix=%v choices=%v res=%+v pruned=%v obs=%s\n", prefix, x.Choices, x.Res, x.Pruned, x.Obs)
			for i, p := range x.Points {
				fmt.Fprintf(os.Stderr, "   %d: %v chosen=%d running=%v\n", i, p.Desc, p.Chosen, p.Running)
			}
		}
		if e.Diverged != "" {
			return
		}
		switch {
		case x.Res.Deadlock:
			e.Deadlocks = append(e.Deadlocks, x.Choices)
			e.Outcomes["DEADLOCK "+fmt.Sprint(x.Res.Stuck)]++
		case x.Res.Horizon:
			e.Horizons = append(e.Horizons, x.Choices)
			e.Outcomes["HORIZON"]++
		case x.Res.Aborted:
		default:
			e.Complete++
			if _, ok := e.FirstTrace[x.Obs]; !ok {
				e.FirstTrace[x.Obs] = append([]int{}, x.Choices...)
			}
			e.Outcomes[x.Obs]++
		}
		// alternatives at every point at or after the end of the prefix (push in reverse so that
		// the lowest alternative is explored first)
		for i := len(x.Points) - 1; i >= len(prefix); i-- {
			p := x.Points[i]
			for alt := p.Enabled - 1; alt >= 1; alt-- {
				if e.Bound >= 0 {
					cost := e.preemptionsBefore(&x, i)
					if p.Running {
						cost++
					}
					if cost > e.Bound {
						continue
					}
				}
				np := append(append([]int{}, x.Choices[:i]...), alt)
				stack = append(stack, np)
			}
		}
	}
}
