// Package gen holds the bounded-exhaustive generators of Sysl text.
package gen

import (
	"fmt"
	"strings"
)

// Natives are the 13 native type keywords of the language.
var Natives = []string{"int", "int32", "int64", "float", "float32", "float64", "decimal", "string", "bool", "date", "datetime", "bytes", "any"}

// OddSizes: size/array specs, sensible or not.
var OddSizes = []string{"", "(5)", "(5.8)", "(1..2)", "(5..)", "(0)", "(0..0)", "(99999999999999999999)", "(1.99999999999999999999)", "(99999999999999999999..)", "(1..99999999999999999999)"}

var OddRefs = []string{"Foo", "Other.Foo", "Ns :: Other.Foo", "Tbl.id", "Missing", "Foo.a.b", "set", "GET"}

// OddNames: names that stress escaping, keywords in other positions, dotted and namespaced forms.
var OddNames = []string{"Foo", "foo%20bar", "a%22b", "a%3Ab", "bad%zz", "bad%", "bad%2", "int", "string", "set", "of", "GET", "import", "if", "else", "return", "one", "Foo.Bar", "_x", "x-y", "x_1", "é", "Foo%2EBar"}

// OddSpecs enumerates the odd-mode construct product (space S1 of C01): every
// type expression in every position, every name in every position, every
// statement kind in every container, attribute forms on every attachable element.
func OddSpecs(full bool) []string {
	var out []string
	add := func(s string) { out = append(out, s) }

	// ---- type expressions in every position
	var texprs []string
	bases := append(append([]string{}, Natives...), OddRefs...)
	sizes := OddSizes
	for _, b := range bases {
		for _, sz := range sizes {
			for _, wrap := range []string{"", "set of ", "sequence of "} {
				for _, opt := range []string{"", "?"} {
					if !full && opt == "?" && wrap != "" && sz != "" && sz != "(5)" {
						continue
					}
					texprs = append(texprs, wrap+b+sz+opt)
				}
			}
		}
	}
	ctxs := []func(t string) string{
		func(t string) string { return "A:\n    !type T:\n        f <: " + t + "\n" },
		func(t string) string { return "A:\n    !table T:\n        f <: " + t + " [~pk]\n" },
		func(t string) string { return "A:\n    !alias T:\n        " + t + "\n" },
		func(t string) string { return "A:\n    !union T:\n        " + t + "\n" },
		func(t string) string { return "A:\n    Ep (p <: " + t + "):\n        ...\n" },
		func(t string) string { return "A:\n    /x:\n        POST (p <: " + t + " [~body]):\n            ...\n" },
		func(t string) string {
			return "A:\n    /x/{id <: " + strings.TrimSuffix(t, "?") + "}:\n        GET:\n            ...\n"
		},
		func(t string) string { return "A:\n    /x:\n        GET ?q=" + t + ":\n            ...\n" },
		func(t string) string {
			return "A:\n    !view v(p <: " + t + ") -> " + t + ":\n        p -> (:\n            x = p\n        )\n"
		},
		func(t string) string { return "A:\n    Ep:\n        return ok <: " + t + "\n" },
		func(t string) string { return "A:\n    Ep:\n        B <- Ep2 (a <: " + t + ")\n" },
		func(t string) string { return "A:\n    <-> Ev (p <: " + t + "):\n        ...\n" },
		func(t string) string { return "A:\n    !type T:\n        f(1..2) <: " + t + "\n" },
		func(t string) string { return "A:\n    !type T:\n        f <:\n            g <: " + t + "\n" },
	}
	for _, c := range ctxs {
		for _, t := range texprs {
			add(c(t))
		}
	}

	// ---- names in every position
	nctx := []func(n string) string{
		func(n string) string { return n + ":\n    ...\n" },
		func(n string) string { return "Ns :: " + n + ":\n    ...\n" },
		func(n string) string { return n + " :: X \"long\" [~t]:\n    ...\n" },
		func(n string) string { return "A:\n    !type " + n + ":\n        f <: int\n" },
		func(n string) string { return "A:\n    !table " + n + ":\n        f <: int\n" },
		func(n string) string { return "A:\n    !enum " + n + ":\n        X: 1\n" },
		func(n string) string { return "A:\n    !alias " + n + ":\n        int\n" },
		func(n string) string { return "A:\n    !union " + n + ":\n        int\n" },
		func(n string) string { return "A:\n    !type T:\n        " + n + " <: int\n" },
		func(n string) string { return "A:\n    !enum E:\n        " + n + ": 1\n" },
		func(n string) string { return "A:\n    " + n + ":\n        ...\n" },
		func(n string) string { return "A:\n    " + n + " \"long\" (p <: int) [~t]:\n        ...\n" },
		func(n string) string { return "A:\n    Ep (" + n + " <: int):\n        ...\n" },
		func(n string) string { return "A:\n    Ep (" + n + "):\n        ...\n" },
		func(n string) string { return "A:\n    /" + n + ":\n        GET:\n            ...\n" },
		func(n string) string { return "A:\n    /x/{" + n + "}:\n        GET:\n            ...\n" },
		func(n string) string { return "A:\n    /x/{" + n + " <: int}:\n        GET:\n            ...\n" },
		func(n string) string { return "A:\n    /x:\n        GET ?" + n + "=int:\n            ...\n" },
		func(n string) string {
			return "A:\n    /x:\n        GET ?q=" + n + "&r={" + n + "}:\n            ...\n"
		},
		func(n string) string { return "A:\n    Ep:\n        " + n + " <- X\n" },
		func(n string) string { return "A:\n    Ep:\n        B <- " + n + "\n" },
		func(n string) string { return "A:\n    Ep:\n        B <- GET /" + n + "\n" },
		func(n string) string { return "A:\n    Ep:\n        . <- " + n + "\n" },
		func(n string) string { return "A:\n    Ep:\n        " + n + "\n" },
		func(n string) string { return "A:\n    Ep:\n        " + n + " -> Ev\n" },
		func(n string) string { return "A:\n    Ep:\n        B -> " + n + "\n" },
		func(n string) string { return "A:\n    Ep:\n        return " + n + "\n" },
		func(n string) string { return "A:\n    Ep:\n        return ok <: " + n + " [mediatype=\"x\"]\n" },
		func(n string) string { return "A:\n    Ep:\n        if " + n + ":\n            ...\n" },
		func(n string) string { return "A:\n    Ep:\n        " + n + ":\n            x\n" },
		func(n string) string {
			return "A:\n    Ep:\n        one of:\n            " + n + ":\n                x\n"
		},
		func(n string) string { return "A:\n    Ep:\n        B <- X (" + n + ")\n" },
		func(n string) string { return "A:\n    Ep:\n        B <- X (" + n + " <: int)\n" },
		func(n string) string { return "A:\n    <-> " + n + ":\n        ...\n" },
		func(n string) string { return "A:\n    B -> " + n + ":\n        ...\n" },
		func(n string) string { return "A:\n    " + n + " -> Ev:\n        ...\n" },
		func(n string) string { return "A:\n    -|> " + n + "\n" },
		func(n string) string { return "A [" + n + "=\"v\"]:\n    ...\n" },
		func(n string) string { return "A [~" + n + "]:\n    ...\n" },
		func(n string) string { return "A:\n    @" + n + " = \"v\"\n    ...\n" },
		func(n string) string {
			return "A:\n    .. * <- *:\n        " + n + " [~x]\n    " + n + ":\n        ...\n"
		},
		func(n string) string { return "A:\n    .. * <- *:\n        B <- " + n + " [~x]\n" },
		func(n string) string { return "A:\n    .. * <- *:\n        GET /" + n + " [~x]\n" },
		func(n string) string { return "A:\n    .. * <- *:\n        S <- " + n + " -> E [~x]\n" },
		func(n string) string {
			return "A:\n    !view " + n + "(p <: int) -> int:\n        p -> (:\n            x = p\n        )\n"
		},
		func(n string) string {
			return "A:\n    !view v(" + n + " <: int) -> int:\n        " + n + " -> (:\n            x = 1\n        )\n"
		},
		func(n string) string {
			return "A:\n    !view v(p <: int) -> int:\n        p -> (:\n            " + n + " = 1\n        )\n"
		},
		func(n string) string {
			return "A:\n    !view v(p <: int) -> int:\n        p -> (:\n            x = " + n + "\n        )\n"
		},
		func(n string) string {
			return "A:\n    !view v(p <: int) -> int:\n        p -> (:\n            x = " + n + "(1)\n        )\n"
		},
		func(n string) string {
			return "A:\n    !view v(p <: int) -> int:\n        p -> (:\n            x = p." + n + "\n        )\n"
		},
		func(n string) string { return "A:\n    !wrap " + n + ":\n        !table T\n" },
		func(n string) string { return "A:\n    !wrap M:\n        !table " + n + "\n" },
		func(n string) string { return "import " + n + "\nA:\n    ...\n" },
		func(n string) string { return "import x as " + n + "\nA:\n    ...\n" },
		func(n string) string { return "import x as Ns :: " + n + "\nA:\n    ...\n" },
		func(n string) string { return "import x ~" + n + "\nA:\n    ...\n" },
	}
	for _, c := range nctx {
		for _, n := range OddNames {
			add(c(n))
		}
	}

	// ---- statements: every kind in every container, with bodies
	leaf := []string{"...", "x", "\"quoted\"", "| doc", "B <- Ep", ". <- Ep", "B <- GET /x", "B <- Ep (a, b <: int, \"s\")", "return ok", "return ok <: string", "return", "return error <: A.T [~x]", "B -> Ev", "@a = \"v\"", "# comment", "x [~t, k=\"v\"]"}
	blocks := []string{"if c:", "else:", "else if d:", "for i in x:", "for each x:", "loop n:", "while c:", "until c:", "alt c:", "one of:", "grp:", "\"quoted grp\":", "text grp:", "if c [~x]:", "one of [~x]:"}
	containers := []func(body string) string{
		func(b string) string { return "A:\n    Ep:\n" + indent(b, 2) },
		func(b string) string { return "A:\n    /x:\n        GET:\n" + indent(b, 3) },
		func(b string) string { return "A:\n    <-> Ev:\n" + indent(b, 2) },
		func(b string) string { return "A:\n    B -> Ev:\n" + indent(b, 2) },
	}
	var bodies []string
	for _, l := range leaf {
		bodies = append(bodies, l+"\n")
	}
	for _, b := range blocks {
		for _, l := range leaf {
			bodies = append(bodies, b+"\n    "+l+"\n")
		}
		bodies = append(bodies, b+"\n")                         // empty block
		bodies = append(bodies, "if a:\n    x\n"+b+"\n    y\n") // after an if
		bodies = append(bodies, "x\n"+b+"\n    y\nz\n")         // in the middle
		for _, b2 := range blocks {
			bodies = append(bodies, b+"\n    "+b2+"\n        x\n") // nested
		}
		bodies = append(bodies, "one of:\n    c1:\n        "+strings.TrimSuffix(b, ":")+":\n            x\n")
	}
	for _, c := range containers {
		for _, b := range bodies {
			add(c(b))
		}
	}

	// ---- attribute forms on every attachable element
	attrs := []string{"[a=\"v\"]", "[a=[\"x\",\"y\"]]", "[a=[[\"x\"],[\"y\",\"z\"]]]", "[a=[]]", "[~t]", "[~t+u]", "[~t, a=\"v\", ~u]", "[a=\"v\", a=\"w\"]", "[patterns=[\"p\"]]", "[patterns=\"p\"]", "[~t, patterns=[\"p\"]]", "[a=\"\"]", "[a=\"q\\\"q\"]", "[a='single']", "[a=[\"x\",[\"y\"]]]", "[a=[[]]]", "[a=[[[\"deep\"]]]]"}
	actx := []func(a string) string{
		func(a string) string { return "A " + a + ":\n    ...\n" },
		func(a string) string { return "A \"long\" " + a + ":\n    ...\n" },
		func(a string) string { return "A:\n    !type T " + a + ":\n        f <: int\n" },
		func(a string) string { return "A:\n    !table T " + a + ":\n        f <: int " + a + "\n" },
		func(a string) string { return "A:\n    !type T:\n        f <: int? " + a + "\n" },
		func(a string) string { return "A:\n    !type T:\n        f <: set of int " + a + "\n" },
		func(a string) string { return "A:\n    !enum E " + a + ":\n        X: 1\n" },
		func(a string) string { return "A:\n    !alias L " + a + ":\n        int\n" },
		func(a string) string { return "A:\n    !union U " + a + ":\n        int\n" },
		func(a string) string { return "A:\n    Ep " + a + ":\n        ...\n" },
		func(a string) string { return "A:\n    Ep (p <: int " + a + "):\n        ...\n" },
		func(a string) string { return "A:\n    /x " + a + ":\n        GET " + a + ":\n            ...\n" },
		func(a string) string {
			return "A:\n    /x:\n        GET (p <: int " + a + ") ?q=int " + a + ":\n            ...\n"
		},
		func(a string) string { return "A:\n    <-> Ev " + a + ":\n        ...\n" },
		func(a string) string { return "A:\n    B -> Ev " + a + ":\n        ...\n" },
		func(a string) string { return "A:\n    Ep:\n        x " + a + "\n" },
		func(a string) string { return "A:\n    Ep:\n        B <- Ep " + a + "\n" },
		func(a string) string { return "A:\n    Ep:\n        return ok <: string " + a + "\n" },
		func(a string) string { return "A:\n    Ep:\n        if c " + a + ":\n            x\n" },
		func(a string) string { return "A:\n    .. * <- *:\n        Ep " + a + "\n    Ep:\n        ...\n" },
		func(a string) string {
			return "A:\n    !view v(p <: int) -> int " + a + ":\n        p -> (:\n            x = p\n        )\n"
		},
	}
	for _, c := range actx {
		for _, a := range attrs {
			add(c(a))
		}
	}
	annos := []string{"@a = \"v\"", "@a = [\"x\"]", "@a = [[\"x\"]]", "@a =:\n    | line1\n    | line2", "@a = \"\"", "@a.b = \"v\"", "@a = []", "@patterns = [\"p\"]"}
	anctx := []func(a string) string{
		func(a string) string { return "A:\n" + indent(a, 1) + "    ...\n" },
		func(a string) string { return "A:\n    !type T:\n" + indent(a, 2) + "        f <: int\n" },
		func(a string) string { return "A:\n    !type T:\n        f <: int:\n" + indent(a, 3) },
		func(a string) string { return "A:\n    !enum E:\n" + indent(a, 2) + "        X: 1\n" },
		func(a string) string { return "A:\n    !alias L:\n" + indent(a, 2) + "        int\n" },
		func(a string) string { return "A:\n    !union U:\n" + indent(a, 2) + "        int\n" },
		func(a string) string { return "A:\n    Ep:\n" + indent(a, 2) + "        ...\n" },
		func(a string) string {
			return "A:\n    /x:\n" + indent(a, 2) + "        GET:\n" + indent(a, 3) + "            ...\n"
		},
		func(a string) string { return "A:\n    !view v(p <: int) -> int [abstract]\n" },
		func(a string) string { return "A:\n    !view v(p <: int) -> int abstract:\n" + indent(a, 2) },
	}
	for _, c := range anctx {
		for _, a := range annos {
			add(c(a + "\n"))
		}
	}

	// ---- enum values and sizes at boundaries
	for _, v := range []string{"0", "1", "2147483647", "2147483648", "4294967296", "9223372036854775807", "9223372036854775808", "99999999999999999999", "007"} {
		add("A:\n    !enum E:\n        X: " + v + "\n")
		add("A:\n    !type T:\n        f(" + v + "..) <: int\n")
		add("A:\n    !type T:\n        f(1.." + v + ") <: string\n")
		add("A:\n    Ep:\n        loop " + v + ":\n            x\n")
	}

	// ---- misc structural oddities
	misc := []string{
		"A:\n    ...\n    ...\n",
		"A:\n    !type T:\n        ...\n",
		"A:\n    !table T:\n        ...\n",
		"A:\n    !enum E:\n        ...\n",
		"A:\n    !union U:\n        ...\n",
		"A:\n    !type T:\n        f\n",
		"A:\n    !type T:\n        f <: int\n        f <: string\n",
		"A:\n    !type T:\n        f <: int\n    !type T:\n        g <: int\n",
		"A:\n    !type T:\n        f <: int\n    !table T:\n        g <: int\n",
		"A:\n    !type T:\n        f <: int\n    !enum T:\n        X: 1\n",
		"A:\n    !type T:\n        f <: int\n    !alias T:\n        int\n",
		"A:\n    !type T:\n        f <: int\n    !union T:\n        int\n",
		"A:\n    !enum T:\n        X: 1\n    !type T:\n        f <: int\n",
		"A:\n    !alias T:\n        int\n    !type T:\n        f <: int\n",
		"A:\n    !union T:\n        int\n    !table T:\n        f <: int\n",
		"A:\n    !type T:\n        !type U:\n            f <: int\n",
		"A:\n    !table T:\n        !table U:\n            f <: int\n        g <: int\n",
		"A:\n    Ep:\n        ...\n    Ep:\n        x\n",
		"A:\n    /x:\n        GET:\n            ...\n    /x:\n        GET:\n            x\n",
		"A:\n    /:\n        GET:\n            ...\n",
		"A:\n    /x:\n        /y:\n            /z/{a}/{b <: int}:\n                GET ?q=int&r=string?:\n                    ...\n",
		"A:\n    /x:\n        @a = \"v\"\n        GET:\n            ...\n",
		"A:\n    -|> A\n",
		"A:\n    -|> B\nB:\n    -|> A\n",
		"A:\n    -|> B\nB:\n    -|> C\nC:\n    Ep:\n        ...\n    !type T:\n        f <: int\n",
		"A:\n    -|> Missing\n",
		"A:\n    B -> Ev:\n        ...\n",
		"A:\n    <-> Ev:\n        ...\nB:\n    A -> Ev:\n        x\n",
		"A:\n    A -> Ev:\n        ...\n",
		"A:\n    .. * <- *:\n        ...\n",
		"A:\n    .. * <- *:\n        Missing [~x]\n",
		"A:\n    .. * <- *:\n        B <- Missing [~x]\n",
		"A:\n    .. * <- *:\n        GET /nope [~x]\n",
		"A:\n    .. * <- *:\n        GET /x/{id}?a=b [~x]\n    /x/{id}:\n        GET ?a=int:\n            ...\n",
		"A:\n    .. * <- *:\n        S <- P -> E [~x]\n",
		"A:\n    .. * <- *:\n        A <- A -> E [~x]\n    <-> E:\n        ...\n    A -> E:\n        ...\n",
		"A:\n    Ep:\n        B <- X\n    .. * <- *:\n        B <- X [~x]\n",
		"A:\n    Ep:\n        if a:\n            one of:\n                c:\n                    B <- X\n    .. * <- *:\n        B <- X [~x]\n",
		"A:\n    !wrap M:\n        !table T\n        !type U:\n            f\n        !union V\n",
		"A:\n    !view v(p <: int) -> int abstract\n",
		"A:\n    !view v(p <: int, q <: set of A.T?) -> sequence of string?:\n        p -> <set of A.T> (x:\n            let y = q where(z: z > 1)\n            a = if y then 1 else 2\n            b = .f ?? 3\n            table of c = y -> <A.T> (:\n                d = 1\n            )\n        )\n",
		"A:\n    !view v(p <: int) -> int:\n        p -> (:\n            x = p.y.z(1, 2).w\n            F(x).*\n        )\n",
		"A:\n    !view v(p <: int) -> int:\n        p -> (:\n            x = {1,2} | {3}\n            y = [1,2] | [3]\n            z = {:}\n        )\n",
		"A:\n    !view v(p <: int) -> int:\n        p -> (:\n            x = if p ==:\n                1 => 2\n                3, 4 => 5\n                else 6\n        )\n",
		"A:\n    !view v(p <: int) -> int:\n        p -> (:\n            x = p rank<set of int>(.a desc, .b as r)\n            y = p first 1 by (.a)\n            z = p sum(.a) \n            w = p any(2) count\n            u = p singleOrNull\n            t = p snapshot\n            s = p -> set of a via b\n            r = p ~> q\n            q2 = p !~[a,b]> q\n        )\n",
		"A[~x]:\n    ...\nA[~y]:\n    ...\nA:\n    ...\n",
		"A \"l1\":\n    ...\nA \"l2\":\n    ...\n",
		"A :: B:\n    ...\nA::B:\n    ...\nA ::B:\n    ...\n",
		"A:\n    !type T:\n        f <: B.U\nB:\n    !type U:\n        g <: A.T\n",
		"A:\n    !type T:\n        f <: T\n",
		"A:\n    !type T:\n        f <: T.f\n",
		"A:\n    !type T:\n        f <: U.V.W.X.Y\n",
		"A:\n    !table T:\n        f <: T.f [~pk]\n",
		"",
		"\n\n\n",
		"# only a comment\n",
		"import a\n",
		"import a\nimport b\n",
		"A:\n\t...\n",
		"A:\n  ...\n",
		"A:\n ...\n",
		"A:\n        ...\n",
		"A:\n    Ep:\n      x\n",
		"A:\n    Ep:\n        x\n      y\n",
		"A:\n    Ep:\n        x\n   y:\n        z\n",
		"A:\r\n    Ep:\r\n        x\r\n",
		"A:\n    Ep:\n        x",
		"A:\n    ...\nimport late\n",
	}
	for _, m := range misc {
		add(m)
	}
	// ---- applications and call targets that differ only in case or spacing
	defs := []string{"Server", "Ns :: Server", "server", "My%20App"}
	variants := func(d string) []string {
		return []string{d, strings.ToLower(d), strings.ToUpper(d), strings.Title(strings.ToLower(d)), strings.ReplaceAll(d, " :: ", "::"), strings.ReplaceAll(d, " :: ", " ::")}
	}
	for _, d := range defs {
		for _, v := range variants(d) {
			add(d + ":\n    Ep:\n        ...\n    /things:\n        GET:\n            ...\nClient:\n    Run:\n        " + v + " <- Ep\n")
			add(d + ":\n    Ep:\n        ...\n    /things:\n        GET:\n            ...\nClient:\n    Run:\n        " + v + " <- GET /things\n")
			add(d + ":\n    Ep:\n        ...\n" + v + ":\n    Other:\n        " + d + " <- Ep\n")
			add(d + ":\n    <-> Ev:\n        ...\nClient:\n    " + v + " -> Ev:\n        ...\n")
			add(d + ":\n    Ep:\n        ...\nClient:\n    -|> " + v + "\n    !type T:\n        f <: " + v + ".X\n")
		}
	}
	// doc strings / long names everywhere
	for _, q := range []string{"\"x\"", "\"\"", "\"a\\\"b\"", "'x'", "\"%zz\"", "\"multi word\""} {
		add("A " + q + ":\n    ...\n")
		add("A:\n    Ep " + q + ":\n        ...\n")
		add("A:\n    !type T:\n        f <: int " + q + "\n")
		add("A:\n    Ep (p <: int " + q + "):\n        ...\n")
		add("A:\n    Ep:\n        " + q + "\n")
		add("A:\n    Ep:\n        B <- X (" + q + ")\n")
		add("A:\n    Ep:\n        " + q + ":\n            x\n")
	}
	// view bodies: transform headers x all ordered pairs of body statements (nested transforms typed and
	// untyped, plain and transform-valued assignments and lets, table-of, wildcards)
	{
		heads := []string{"p -> (:", "p -> (x:", "p -> <T> (:", "p -> <set of T> (x:", "p -> <int> (:", "q -> <sequence of T> (e:"}
		stmts := []string{
			"a = 1",
			"a = p",
			"let l = 1",
			"let l = p -> (:\n    z = 1\n)",
			"let l = p -> <T> (:\n    f = 1\n)",
			"b = p -> (:\n    x = 1\n)",
			"b = p -> <T> (:\n    f = 1\n)",
			"b = p -> <set of T> (y:\n    f = y\n)",
			"b = p -> (:\n    c = p -> <T> (:\n        f = 1\n    )\n)",
			"b = p -> (:\n    c = p -> (:\n        d = 1\n    )\n)",
			"b = q -> (e:\n    let m = e\n    g = m\n)",
			"table of t = q -> <T> (:\n    f = 1\n)",
			"table of t = q -> (:\n    f = 1\n)",
			"F(p).*",
			"*",
			"b = p -> <Missing.T> (:\n    f = 1\n)",
			"b = helper(p)",
			"b = helper(p) -> (:\n    x = .f\n)",
		}
		mk := func(head string, body ...string) string {
			var b strings.Builder
			b.WriteString("A:\n    !type T:\n        f <: int\n    !view helper(n <: int) -> T:\n        n -> <T> (:\n            f = n\n        )\n    !view v(p <: int, q <: set of T) -> T:\n        " + head + "\n")
			for _, st := range body {
				b.WriteString(indent(st, 3) + "\n")
			}
			b.WriteString("        )\n")
			return b.String()
		}
		for hi, h := range heads {
			for i, s1 := range stmts {
				add(mk(h, s1))
				if hi < 2 || full {
					for j, s2 := range stmts {
						if i != j {
							add(mk(h, s1, s2))
						}
					}
				}
			}
		}
	}
	return dedup(out)
}

func indent(s string, n int) string {
	pad := strings.Repeat("    ", n)
	var b strings.Builder
	for _, l := range strings.SplitAfter(s, "\n") {
		if l == "" {
			continue
		}
		if strings.TrimSpace(l) == "" {
			b.WriteString(l)
			continue
		}
		b.WriteString(pad + l)
	}
	r := b.String()
	if !strings.HasSuffix(r, "\n") {
		r += "\n"
	}
	return r
}

func dedup(in []string) []string {
	seen := map[string]bool{}
	var out []string
	for _, s := range in {
		if !seen[s] {
			seen[s] = true
			out = append(out, s)
		}
	}
	return out
}

// Seeds: one small spec per construct family (space S2 of C01, also used by C03).
var Seeds = []string{
	"App \"long\" [~t, k=\"v\"]:\n    @a = \"v\"\n    @b = [\"x\", \"y\"]\n    @c =:\n        | l1\n        | l2\n    ...\n",
	"Ns :: App:\n    !type T [~t]:\n        a <: int\n        b <: string(5)?\n        c <: set of Other.U\n        d <: sequence of string\n        e <: decimal(5.2) [~pk]\n",
	"App:\n    !table T:\n        id <: int [~pk, ~autoinc]\n        r <: U.id\n    !table U:\n        id <: int [~pk]\n",
	"App:\n    !enum E:\n        A: 1\n        B: 2\n    !alias L:\n        sequence of E\n    !union U:\n        int\n        E\n",
	"App:\n    Ep \"long\" (a <: int, b <: T) [~x]:\n        | doc\n        \"text\"\n        Other <- Ep2\n        . <- Ep\n        return ok <: T\n",
	"App:\n    /a [~r]:\n        /b/{id <: int}:\n            GET ?q=string&r=int?:\n                return ok <: T\n            POST (body <: T [~body]):\n                Other <- GET /x/{y}\n",
	"App:\n    Ep:\n        if c:\n            x\n        else if d:\n            y\n        else:\n            z\n        for each i:\n            w\n        loop 3:\n            v\n",
	"App:\n    Ep:\n        one of:\n            c1:\n                x\n            \"c 2\":\n                return ok <: int\n        grp:\n            y\n        alt q:\n            z\n",
	"App:\n    <-> Ev (p <: int) [~e]:\n        x\n    Other -> Ev2:\n        y\n    -|> Mix\nMix:\n    Shared:\n        ...\n",
	"App:\n    Ep:\n        B <- X\n    .. * <- *:\n        Ep [~a]\n        B <- X [k=\"v\"]\n",
	"App:\n    !view v(p <: int, q <: set of T) -> sequence of T:\n        q -> <sequence of T> (x:\n            let y = x.a + 1\n            a = if y > 1 then \"s\" else \"t\"\n            b = p ?? 0\n        )\n",
	"import dep\nimport sub/dep2 as Ns :: X ~sysl\nimport dep3\nApp:\n    Ep:\n        Dep <- E\n        Dep3 <- E3\n",
	"A:\n    !type T:\n        f <:\n            g <: int\n            h <:\n                i <: string\n",
	"A :: B \"n\":\n    !type T.U:\n        f <: int\nA :: B:\n    !type T:\n        g <: T.U\n",
	"A:\n    Ep:\n        B <- Ep (a, b <: int) [~x]\n        return ok <: sequence of A.T [mediatype=\"json\"]\n        return error\n",
	"A:\n    # c1\n    Ep:\n        # c2\n        x\n\n        y\n    # c3\n",
	"A:\n    !wrap M:\n        !table T\n        !type U\n",
	"A:\n    /x:\n        GET:\n            ...\n        PUT:\n            ...\n        PATCH:\n            ...\n        DELETE:\n            ...\n        POST:\n            ...\n",
	"App:\n    !type T:\n        name <: string\n        dob <: date\n    !view v(t <: T) -> T:\n        t -> <T> (:\n            .name\n            .dob\n            age = 1\n            inner = t -> <T> (x:\n                x.name\n                .dob\n            )\n        )\n",
}

// SeedCompanions: files that the seeds with import statements refer to (written next to the seed by the checks
// that compile seeds with their closure).
var SeedCompanions = map[string]string{
	"dep.sysl":      "Dep:\n    E:\n        ...\n",
	"sub/dep2.sysl": "Dep2:\n    E2:\n        ...\n",
	"dep3.sysl":     "Dep3:\n    E3:\n        ...\n",
}

// Tokens substituted by the token-level edits of S2.
var EditTokens = []string{":", "::", "<:", "<-", "->", "<->", "-|>", "..", "...", ".", ",", "?", "&", "=", "(", ")", "[", "]", "{", "}", "~", "@", "|", "#", "!type", "!table", "!enum", "!alias", "!union", "!view", "!wrap", "import", "if", "else", "one of", "set of", "sequence of", "return", "GET", "/", "\"", "'", "%", "%2", "int", "5", "5..", "x", " ", "\t", "\n", "    "}

// Tokenize splits a spec into a crude token list (runs of word characters, runs of
// spaces, single other characters) for token-level edits.
func Tokenize(s string) []string {
	var toks []string
	i := 0
	isW := func(c byte) bool {
		return c == '_' || c >= '0' && c <= '9' || c >= 'a' && c <= 'z' || c >= 'A' && c <= 'Z' || c >= 0x80
	}
	for i < len(s) {
		j := i + 1
		switch {
		case isW(s[i]):
			for j < len(s) && isW(s[j]) {
				j++
			}
		case s[i] == ' ':
			for j < len(s) && s[j] == ' ' {
				j++
			}
		case s[i] == '<' || s[i] == '-' || s[i] == ':' || s[i] == '.':
			for j < len(s) && j < i+3 && strings.ContainsRune("<->:|.", rune(s[j])) {
				j++
			}
		}
		toks = append(toks, s[i:j])
		i = j
	}
	return toks
}

// EditNeighbourhood: every single edit of a seed (space S2).
func EditNeighbourhood(seed string, tokens []string) []string {
	var out []string
	// byte prefixes (truncation)
	for i := 0; i < len(seed); i++ {
		out = append(out, seed[:i])
	}
	// line edits
	lines := strings.SplitAfter(seed, "\n")
	if lines[len(lines)-1] == "" {
		lines = lines[:len(lines)-1]
	}
	join := func(ls []string) string { return strings.Join(ls, "") }
	for i := range lines {
		cp := func() []string { return append([]string{}, lines...) }
		a := cp()
		out = append(out, join(append(a[:i], a[i+1:]...))) // delete
		b := cp()
		out = append(out, join(append(b[:i+1], append([]string{lines[i]}, lines[i+1:]...)...))) // duplicate
		c := cp()
		c[i] = "    " + c[i]
		out = append(out, join(c)) // indent +1
		d := cp()
		if strings.HasPrefix(d[i], "    ") {
			d[i] = d[i][4:]
			out = append(out, join(d)) // indent -1
		}
		e := cp()
		e[i] = " " + e[i]
		out = append(out, join(e)) // indent + 1 space
		if i+1 < len(lines) {
			f := cp()
			f[i], f[i+1] = f[i+1], f[i]
			out = append(out, join(f)) // swap with next
		}
	}
	// token edits
	toks := Tokenize(seed)
	tj := func(ts []string) string { return strings.Join(ts, "") }
	for i := range toks {
		cp := func() []string { return append([]string{}, toks...) }
		a := cp()
		out = append(out, tj(append(a[:i], a[i+1:]...)))
		b := cp()
		out = append(out, tj(append(b[:i+1], append([]string{toks[i]}, toks[i+1:]...)...)))
		if i+1 < len(toks) {
			c := cp()
			c[i], c[i+1] = c[i+1], c[i]
			out = append(out, tj(c))
		}
		if strings.TrimSpace(toks[i]) == "" && toks[i] != "\n" {
			continue
		}
		for _, t := range tokens {
			d := cp()
			d[i] = t
			out = append(out, tj(d))
		}
	}
	return dedup(out)
}

// ByteStrings: all strings of exactly length n over alphabet.
func ByteStrings(alphabet string, n int, emit func(string)) {
	buf := make([]byte, n)
	var rec func(i int)
	rec = func(i int) {
		if i == n {
			emit(string(buf))
			return
		}
		for j := 0; j < len(alphabet); j++ {
			buf[i] = alphabet[j]
			rec(i + 1)
		}
	}
	rec(0)
}

var _ = fmt.Sprintf

// CrashRepros: first failing input of every crash class the C01 exploration found on the
// pinned tree (before the fix: commit); kept as CLI representatives.
var CrashRepros = []string{
	"A:\n    !type T:\n        f <: int(99999999999999999999..)\n",
	"A:\n    !type T:\n        f <: int(99999999999999999999)\n",
	"A:\n    !type T:\n        f <: float(5)\n",
	"A:\n    !type T:\n        f <: float(1..2)\n",
	"A:\n    Ep (p <: set of int):\n        ...\n",
	"A:\n    Ep:\n        B <- bad%zz\n",
	"A:\n    Ep:\n        if c:\n            @a = \"v\"\n",
	"A:\n    /x:\n        GET:\n            if c:\n                | doc\n",
	"A:\n    <-> Ev:\n        @a = \"v\"\n",
	"A:\n    !table T [patterns=\"p\"]:\n        f <: int [patterns=\"p\"]\n",
	"A:\n    @patterns = [\"p\"]\n    ...\n",
	"A:\n    !table T:\n        !table U:\n            f <: int\n        g <: int\n",
	"A:\n    Ep:\n        return ok <: sequence of A.T [mediatype=\"%\"]\n",
	"A:\n    !wrap M:\n        !table T\n        !type U\n",
	"import x as bad%zz\nA:\n    ...\n",
	"A:\n    Ep:\n        x",
	"A:\n    Ep:\n        !",
	"",
}
