package gen

import (
	"fmt"
)

// Labeled is one generated specification with a label naming its sub-space.
type Labeled struct {
	Label string
	Spec  *Spec
}

func prim(p string) TypeExpr                    { return TypeExpr{Prim: p} }
func ref(app []string, path ...string) TypeExpr { return TypeExpr{RefApp: app, Ref: path} }

// support apps that references point to
func supportApps() []*App {
	return []*App{
		{Name: []string{"Other"}, Types: []*TypeDecl{{Kind: "type", Name: "U", Fields: []*Field{{Name: "z", T: prim("int")}}}},
			Eps: []*Endpoint{{Kind: "simple", Name: "Ep2"}, {Kind: "rest", Method: "GET", Path: []PathSeg{{Static: "x"}}}}},
		{Name: []string{"Ns", "Oth"}, Types: []*TypeDecl{{Kind: "type", Name: "U", Fields: []*Field{{Name: "z", T: prim("int")}}}}},
	}
}

func localTypes() []*TypeDecl {
	return []*TypeDecl{
		{Kind: "type", Name: "T2", Fields: []*Field{{Name: "f", T: prim("int")}}},
		{Kind: "enum", Name: "E2", Items: []EnumItem{{"A", "1"}, {"B", "2"}}},
	}
}

// Descriptors: every field descriptor of sub-space L1.
func Descriptors() []TypeExpr {
	var bases []TypeExpr
	for _, p := range Natives {
		bases = append(bases, prim(p))
	}
	sized := map[string][]string{
		"int":     {"(5)", "(1..2)", "(3..)"},
		"string":  {"(5)", "(1..2)", "(3..)", "(0..7)"},
		"bytes":   {"(16)"},
		"decimal": {"(9)", "(5.2)", "(12.0)"},
	}
	for _, p := range []string{"int", "string", "bytes", "decimal"} {
		for _, z := range sized[p] {
			bases = append(bases, TypeExpr{Prim: p, Size: z})
		}
	}
	bases = append(bases, ref(nil, "T2"), ref(nil, "E2"), ref([]string{"Other"}, "U"), ref([]string{"Ns", "Oth"}, "U"), ref(nil, "T2", "f"))
	var out []TypeExpr
	for _, b := range bases {
		for _, w := range []string{"", "set", "sequence"} {
			for _, o := range []bool{false, true} {
				t := b
				t.Wrap, t.Opt = w, o
				out = append(out, t)
			}
		}
	}
	return out
}

func mainApp(name []string) *App { return &App{Name: name} }

// L1: every descriptor alone and packed, in every position.
func L1() []Labeled {
	var out []Labeled
	ds := Descriptors()
	mk := func(label string, fill func(a *App, d TypeExpr, i int)) {
		// each descriptor alone
		for i, d := range ds {
			a := mainApp([]string{"A"})
			a.Types = localTypes()
			fill(a, d, 0)
			out = append(out, Labeled{fmt.Sprintf("L1/%s/alone/%d", label, i), &Spec{Apps: append([]*App{a}, supportApps()...)}})
		}
		// packed, 12 per spec
		for i := 0; i < len(ds); i += 12 {
			a := mainApp([]string{"A"})
			a.Types = localTypes()
			for j := i; j < i+12 && j < len(ds); j++ {
				fill(a, ds[j], j-i)
			}
			out = append(out, Labeled{fmt.Sprintf("L1/%s/packed/%d", label, i), &Spec{Apps: append([]*App{a}, supportApps()...)}})
		}
	}
	mk("typefield", func(a *App, d TypeExpr, i int) {
		t := findType(a, "T", "type")
		t.Fields = append(t.Fields, &Field{Name: fmt.Sprintf("f%d", i), T: d})
	})
	mk("tablefield", func(a *App, d TypeExpr, i int) {
		t := findType(a, "Tb", "table")
		t.Fields = append(t.Fields, &Field{Name: fmt.Sprintf("f%d", i), T: d})
	})
	mk("alias", func(a *App, d TypeExpr, i int) {
		if d.Opt || (d.Size != "" && d.Wrap == "") {
			return // an alias body takes no '?', and a size only inside a collection
		}
		dd := d
		a.Types = append(a.Types, &TypeDecl{Kind: "alias", Name: fmt.Sprintf("L%d", i), Alias: &dd})
	})
	mk("union", func(a *App, d TypeExpr, i int) {
		if d.Opt || d.Size != "" {
			return
		}
		t := findType(a, "Un", "union")
		t.Members = append(t.Members, d)
	})
	noWrap := func(d TypeExpr) bool { return d.Wrap == "" }
	mk("param", func(a *App, d TypeExpr, i int) {
		if !noWrap(d) {
			return
		}
		e := findEp(a, "Ep")
		e.Params = append(e.Params, &Param{Name: fmt.Sprintf("p%d", i), T: d})
	})
	mk("restparam", func(a *App, d TypeExpr, i int) {
		if !noWrap(d) {
			return
		}
		e := findRest(a)
		e.Params = append(e.Params, &Param{Name: fmt.Sprintf("p%d", i), T: d})
	})
	mk("eventparam", func(a *App, d TypeExpr, i int) {
		if !noWrap(d) {
			return
		}
		e := findEvent(a)
		e.Params = append(e.Params, &Param{Name: fmt.Sprintf("p%d", i), T: d})
	})
	// drop specs where fill skipped everything (app with only the local types)
	var keep []Labeled
	for _, l := range out {
		a := l.Spec.Apps[0]
		if len(a.Types) > 2 || len(a.Eps) > 0 {
			keep = append(keep, l)
		}
	}
	return keep
}

func findType(a *App, name, kind string) *TypeDecl {
	for _, t := range a.Types {
		if t.Name == name {
			return t
		}
	}
	t := &TypeDecl{Kind: kind, Name: name}
	a.Types = append(a.Types, t)
	return t
}
func findEp(a *App, name string) *Endpoint {
	for _, e := range a.Eps {
		if e.Kind == "simple" && e.Name == name {
			return e
		}
	}
	e := &Endpoint{Kind: "simple", Name: name}
	a.Eps = append(a.Eps, e)
	return e
}
func findRest(a *App) *Endpoint {
	for _, e := range a.Eps {
		if e.Kind == "rest" {
			return e
		}
	}
	e := &Endpoint{Kind: "rest", Method: "POST", Path: []PathSeg{{Static: "r"}}}
	a.Eps = append(a.Eps, e)
	return e
}
func findEvent(a *App) *Endpoint {
	for _, e := range a.Eps {
		if e.Kind == "event" {
			return e
		}
	}
	e := &Endpoint{Kind: "event", Name: "Ev"}
	a.Eps = append(a.Eps, e)
	return e
}

// ---- statements

func leafStmts() []*Stmt {
	return []*Stmt{
		{Kind: "action", Text: "do it"},
		{Kind: "quoted", Text: "quoted text"},
		{Kind: "doc", Text: "doc line"},
		{Kind: "call", Target: []string{"Other"}, Endpoint: "Ep2"},
		{Kind: "selfcall", Endpoint: "Helper"},
		{Kind: "restcall", Target: []string{"Other"}, Endpoint: "GET /x"},
		{Kind: "ret", Text: "ok <: string"},
		{Kind: "call", Target: []string{"Other"}, Endpoint: "Ep2", Args: []string{"a", "b <: int"}},
	}
}

var blockKinds = []string{"if", "elseif", "else", "foreach", "forin", "loopn", "while", "until", "alt", "group", "oneof"}

func blockText(k string) string {
	switch k {
	case "if", "elseif":
		return "a > b"
	case "foreach":
		return "item"
	case "forin":
		return "i in xs"
	case "loopn":
		return "3"
	case "while", "until":
		return "ready"
	case "alt":
		return "choice"
	case "group":
		return "grp"
	}
	return ""
}

func mkBlock(k string, kids []*Stmt) *Stmt {
	if k == "oneof" {
		return &Stmt{Kind: "oneof", Cases: []*Stmt{{Kind: "case", Text: "c1", Kids: kids}, {Kind: "case", Text: "\"c 2\"", Kids: []*Stmt{{Kind: "action", Text: "other"}}}}}
	}
	return &Stmt{Kind: k, Text: blockText(k), Kids: kids}
}

func cloneStmt(s *Stmt) *Stmt {
	c := *s
	c.Kids = nil
	for _, k := range s.Kids {
		c.Kids = append(c.Kids, cloneStmt(k))
	}
	c.Cases = nil
	for _, k := range s.Cases {
		c.Cases = append(c.Cases, cloneStmt(k))
	}
	return &c
}

// stmtTrees: all ordered forests with exactly n nodes over (block kinds + 3 leaf kinds).
func stmtForests(n int, leaves []*Stmt) [][]*Stmt {
	if n == 0 {
		return [][]*Stmt{{}}
	}
	var out [][]*Stmt
	// first tree has k nodes (1..n), rest forest has n-k
	for k := 1; k <= n; k++ {
		firsts := stmtTreesN(k, leaves)
		rests := stmtForests(n-k, leaves)
		for _, f := range firsts {
			for _, r := range rests {
				forest := append([]*Stmt{cloneStmt(f)}, r...)
				out = append(out, forest)
			}
		}
	}
	return out
}

func stmtTreesN(n int, leaves []*Stmt) []*Stmt {
	var out []*Stmt
	if n == 1 {
		out = append(out, leaves...)
		return out
	}
	// a block with a forest of n-1 nodes
	for _, k := range blockKinds {
		for _, f := range stmtForests(n-1, leaves) {
			out = append(out, mkBlock(k, f))
		}
	}
	return out
}

func containers() []func(ss []*Stmt) *App {
	return []func(ss []*Stmt) *App{
		func(ss []*Stmt) *App {
			return &App{Name: []string{"A"}, Eps: []*Endpoint{{Kind: "simple", Name: "Ep", Stmts: ss}, {Kind: "simple", Name: "Helper"}}}
		},
		func(ss []*Stmt) *App {
			return &App{Name: []string{"A"}, Eps: []*Endpoint{{Kind: "rest", Method: "GET", Path: []PathSeg{{Static: "r"}}, Stmts: ss}, {Kind: "simple", Name: "Helper"}}}
		},
		func(ss []*Stmt) *App {
			return &App{Name: []string{"A"}, Eps: []*Endpoint{{Kind: "event", Name: "Ev", Stmts: ss}, {Kind: "simple", Name: "Helper"}}}
		},
		func(ss []*Stmt) *App {
			return &App{Name: []string{"A"}, Eps: []*Endpoint{{Kind: "subscribe", Source: []string{"Pub"}, Name: "Topic", Stmts: ss}, {Kind: "simple", Name: "Helper"}}}
		},
	}
}

// validForest: 'else if' / 'else' must directly follow an 'if' or 'else if' sibling.
func validForest(ss []*Stmt) bool {
	for i, s := range ss {
		if s.Kind == "elseif" || s.Kind == "else" {
			if i == 0 || (ss[i-1].Kind != "if" && ss[i-1].Kind != "elseif") {
				return false
			}
		}
		if !validForest(s.Kids) {
			return false
		}
		for _, c := range s.Cases {
			if !validForest(c.Kids) {
				return false
			}
		}
	}
	return true
}

// withIf: puts an 'if' before a leading else/else-if so that the statement list is well-formed.
func withIf(ss []*Stmt) []*Stmt {
	if len(ss) > 0 && (ss[0].Kind == "elseif" || ss[0].Kind == "else") {
		return append([]*Stmt{{Kind: "if", Text: "first", Kids: []*Stmt{{Kind: "action", Text: "lead"}}}}, ss...)
	}
	return ss
}

// L3: statement trees and the width sweep.
func L3(full bool) []Labeled {
	var out []Labeled
	smallLeaves := []*Stmt{leafStmts()[0], leafStmts()[3], leafStmts()[6]}
	maxN := 3
	for n := 1; n <= maxN; n++ {
		for fi, f := range stmtForests(n, smallLeaves) {
			if !validForest(f) {
				continue
			}
			for ci, c := range containers() {
				if !full && ci > 1 && n == 3 {
					continue
				}
				a := c(f)
				out = append(out, Labeled{fmt.Sprintf("L3/forest%d/%d/c%d", n, fi, ci), &Spec{Apps: append([]*App{a}, supportApps()...)}})
			}
		}
	}
	if full {
		for fi, f := range stmtForests(4, []*Stmt{leafStmts()[0]}) {
			if !validForest(f) {
				continue
			}
			a := containers()[0](f)
			out = append(out, Labeled{fmt.Sprintf("L3/forest4/%d", fi), &Spec{Apps: append([]*App{a}, supportApps()...)}})
		}
	}
	// every leaf kind once in every block kind
	for _, k := range blockKinds {
		for li, l := range leafStmts() {
			a := containers()[0](withIf([]*Stmt{mkBlock(k, []*Stmt{cloneStmt(l)})}))
			out = append(out, Labeled{fmt.Sprintf("L3/leaf-in-%s/%d", k, li), &Spec{Apps: append([]*App{a}, supportApps()...)}})
		}
	}
	// width sweep: every container/block kind with 1..6 children
	for _, k := range append([]string{"top"}, blockKinds...) {
		for w := 1; w <= 6; w++ {
			for li, l := range []*Stmt{leafStmts()[0], leafStmts()[1], leafStmts()[3], leafStmts()[6]} {
				var kids []*Stmt
				for i := 0; i < w; i++ {
					c := cloneStmt(l)
					if c.Kind == "action" {
						c.Text = fmt.Sprintf("step %d", i)
					}
					kids = append(kids, c)
				}
				var ss []*Stmt
				if k == "top" {
					ss = kids
				} else {
					ss = []*Stmt{{Kind: "action", Text: "before"}, mkBlock(k, kids), {Kind: "action", Text: "after"}}
					if k == "elseif" || k == "else" {
						ss = []*Stmt{{Kind: "action", Text: "before"}, {Kind: "if", Text: "first", Kids: []*Stmt{{Kind: "action", Text: "lead"}}}, mkBlock(k, kids), {Kind: "action", Text: "after"}}
					}
				}
				for ci, c := range containers()[:2] {
					out = append(out, Labeled{fmt.Sprintf("L3/width/%s/%d/%d/c%d", k, w, li, ci), &Spec{Apps: append([]*App{c(ss)}, supportApps()...)}})
				}
			}
		}
	}
	// if / else-if / else chains with wide branches
	for w := 1; w <= 6; w++ {
		mk := func(n int, tag string) []*Stmt {
			var k []*Stmt
			for i := 0; i < n; i++ {
				k = append(k, &Stmt{Kind: "action", Text: fmt.Sprintf("%s %d", tag, i)})
			}
			return k
		}
		ss := []*Stmt{{Kind: "if", Text: "x", Kids: mk(w, "branch-a")}, {Kind: "elseif", Text: "y", Kids: mk(w, "branch-b")}, {Kind: "else", Kids: mk(w, "branch-c")}, {Kind: "action", Text: "tail"}}
		out = append(out, Labeled{fmt.Sprintf("L3/ifchain/%d", w), &Spec{Apps: []*App{containers()[0](ss)}}})
		out = append(out, Labeled{fmt.Sprintf("L3/ifchain-rest/%d", w), &Spec{Apps: []*App{containers()[1](ss)}}})
	}
	return out
}

// ---- attributes

func attrForms() [][]Attr {
	return [][]Attr{
		{{Key: "k", Val: Str("v")}},
		{{Key: "k", Val: Str("")}},
		{{Key: "k", Val: Str("with \"quote\" and \\ backslash")}},
		{{Key: "k", Val: Arr(Str("x"), Str("y"))}},
		{{Key: "k", Val: Arr(Str("x"), Arr(Str("y"), Str("z")))}},
		{{Key: "k", Val: Arr()}},
		{{Key: "t", Tag: true}},
		{{Key: "t", Tag: true}, {Key: "u", Tag: true}},
		{{Key: "t", Tag: true}, {Key: "k", Val: Str("v")}, {Key: "u", Tag: true}},
		{{Key: "k1", Val: Str("v1")}, {Key: "k2", Val: Arr(Str("a"))}, {Key: "k3", Val: Str("v3")}},
	}
}

func annoForms() [][]Attr {
	return [][]Attr{
		{{Key: "a", Val: Str("v")}},
		{{Key: "a", Val: Arr(Str("x"), Str("y"))}},
		{{Key: "a", Val: Arr(Arr(Str("x")), Arr(Str("y"), Str("z")))}},
		{{Key: "a", Val: Str("line one\nline two")}},
		{{Key: "a", Val: Str("v")}, {Key: "b", Val: Str("w")}, {Key: "c", Val: Arr(Str("q"))}},
	}
}

// L5: every attribute form on every attachable element.
func L5() []Labeled {
	var out []Labeled
	type slot struct {
		name string
		set  func(a *App, as []Attr)
	}
	base := func() *App {
		return &App{Name: []string{"A"},
			Types: []*TypeDecl{
				{Kind: "type", Name: "T", Fields: []*Field{{Name: "f", T: prim("int")}, {Name: "g", T: TypeExpr{Prim: "string", Wrap: "set"}}, {Name: "h", T: TypeExpr{Prim: "string", Opt: true}}}},
				{Kind: "table", Name: "Tb", Fields: []*Field{{Name: "id", T: prim("int"), Attrs: []Attr{{Key: "pk", Tag: true}}}}},
				{Kind: "enum", Name: "E", Items: []EnumItem{{"X", "1"}}},
				{Kind: "alias", Name: "L", Alias: &TypeExpr{Prim: "int"}},
				{Kind: "union", Name: "U", Members: []TypeExpr{prim("int"), prim("string")}},
			},
			Eps: []*Endpoint{
				{Kind: "simple", Name: "Ep", Params: []*Param{{Name: "p", T: prim("int")}}, Stmts: []*Stmt{{Kind: "action", Text: "x"}, {Kind: "call", Target: []string{"Other"}, Endpoint: "Ep2"}, {Kind: "ret", Text: "ok <: string"}, {Kind: "if", Text: "c", Kids: []*Stmt{{Kind: "action", Text: "y"}}}}},
				{Kind: "rest", Method: "GET", Path: []PathSeg{{Static: "a"}, {Static: "b"}}, Stmts: []*Stmt{{Kind: "action", Text: "x"}}},
				{Kind: "event", Name: "Ev"},
				{Kind: "subscribe", Source: []string{"Pub"}, Name: "Topic"},
			}}
	}
	slots := []slot{
		{"app", func(a *App, as []Attr) { a.Attrs = as }},
		{"type", func(a *App, as []Attr) { a.Types[0].Attrs = as }},
		{"table", func(a *App, as []Attr) { a.Types[1].Attrs = as }},
		{"field", func(a *App, as []Attr) { a.Types[0].Fields[0].Attrs = as }},
		{"setfield", func(a *App, as []Attr) { a.Types[0].Fields[1].Attrs = as }},
		{"optfield", func(a *App, as []Attr) { a.Types[0].Fields[2].Attrs = as }},
		{"pkfield", func(a *App, as []Attr) { a.Types[1].Fields[0].Attrs = append([]Attr{{Key: "pk", Tag: true}}, as...) }},
		{"enum", func(a *App, as []Attr) { a.Types[2].Attrs = as }},
		{"alias", func(a *App, as []Attr) { a.Types[3].Attrs = as }},
		{"union", func(a *App, as []Attr) { a.Types[4].Attrs = as }},
		{"ep", func(a *App, as []Attr) { a.Eps[0].Attrs = as }},
		{"param", func(a *App, as []Attr) { a.Eps[0].Params[0].Attrs = as }},
		{"stmt-action", func(a *App, as []Attr) { a.Eps[0].Stmts[0].Attrs = as }},
		{"stmt-call", func(a *App, as []Attr) { a.Eps[0].Stmts[1].Attrs = as }},
		{"stmt-ret", func(a *App, as []Attr) { a.Eps[0].Stmts[2].Attrs = as }},
		{"restmethod", func(a *App, as []Attr) { a.Eps[1].Attrs = as }},
		{"restpath0", func(a *App, as []Attr) { a.Eps[1].Path[0].Attrs = as }},
		{"restpath1", func(a *App, as []Attr) { a.Eps[1].Path[1].Attrs = as }},
		{"event", func(a *App, as []Attr) { a.Eps[2].Attrs = as }},
		{"subscribe", func(a *App, as []Attr) { a.Eps[3].Attrs = as }},
	}
	for _, s := range slots {
		for fi, f := range attrForms() {
			a := base()
			s.set(a, f)
			out = append(out, Labeled{fmt.Sprintf("L5/%s/%d", s.name, fi), &Spec{Apps: append([]*App{a}, supportApps()...)}})
		}
	}
	// two slots at once (state leaking between attribute scopes)
	for i, s1 := range slots {
		for j, s2 := range slots {
			if i == j {
				continue
			}
			a := base()
			s1.set(a, attrForms()[8])
			if s2.name == "pkfield" && s1.name == "pkfield" {
				continue
			}
			s2.set(a, []Attr{{Key: "z", Val: Str("zz")}, {Key: "w", Tag: true}})
			out = append(out, Labeled{fmt.Sprintf("L5/pair/%s+%s", s1.name, s2.name), &Spec{Apps: append([]*App{a}, supportApps()...)}})
		}
	}
	annoSlots := []slot{
		{"app", func(a *App, as []Attr) { a.Annos = as }},
		{"type", func(a *App, as []Attr) { a.Types[0].Annos = as }},
		{"field", func(a *App, as []Attr) { a.Types[0].Fields[0].Annos = as }},
		{"ep", func(a *App, as []Attr) { a.Eps[0].Annos = as }},
		{"restmethod", func(a *App, as []Attr) { a.Eps[1].Annos = as }},
	}
	for _, s := range annoSlots {
		for fi, f := range annoForms() {
			a := base()
			s.set(a, f)
			out = append(out, Labeled{fmt.Sprintf("L5/anno/%s/%d", s.name, fi), &Spec{Apps: append([]*App{a}, supportApps()...)}})
			// annotation together with an inline attribute of another key
			a2 := base()
			s.set(a2, f)
			a2.Attrs = []Attr{{Key: "inl", Val: Str("i")}, {Key: "t", Tag: true}}
			a2.Types[0].Attrs = []Attr{{Key: "inl", Val: Str("i")}}
			out = append(out, Labeled{fmt.Sprintf("L5/anno+inline/%s/%d", s.name, fi), &Spec{Apps: append([]*App{a2}, supportApps()...)}})
		}
	}
	return out
}

// L4: REST trees.
func L4(full bool) []Labeled {
	var out []Labeled
	vars := []PathSeg{
		{Var: "id", VarT: &TypeExpr{Prim: "int"}},
		{Var: "id", VarT: &TypeExpr{Prim: "string"}},
		{Var: "key", VarT: &TypeExpr{Ref: []string{"T2"}}},
	}
	statics := []PathSeg{{Static: "a"}, {Static: "items"}}
	var paths [][]PathSeg
	segs := append(append([]PathSeg{}, statics...), vars...)
	for _, s1 := range segs {
		paths = append(paths, []PathSeg{s1})
		for _, s2 := range segs {
			if s1.Var != "" && s2.Var == s1.Var {
				continue
			}
			paths = append(paths, []PathSeg{s1, s2})
			if full {
				for _, s3 := range statics {
					paths = append(paths, []PathSeg{s1, s2, s3})
				}
			}
		}
	}
	queries := [][]QueryParam{
		nil,
		{{Name: "q", T: prim("string")}},
		{{Name: "q", T: prim("int")}, {Name: "r", T: TypeExpr{Prim: "string", Opt: true}}},
		{{Name: "q", T: TypeExpr{Ref: []string{"T2"}}}, {Name: "r", T: prim("bool")}, {Name: "s", T: TypeExpr{Prim: "int", Opt: true}}},
	}
	methods := []string{"GET", "POST", "PUT", "PATCH", "DELETE"}
	n := 0
	for pi, p := range paths {
		for qi, q := range queries {
			m := methods[(pi+qi)%len(methods)]
			a := &App{Name: []string{"A"}, Types: localTypes()}
			e := &Endpoint{Kind: "rest", Method: m, Path: p, Query: q, Stmts: []*Stmt{{Kind: "ret", Text: "ok <: T2"}}}
			if qi%2 == 1 {
				e.Params = []*Param{{Name: "body", T: TypeExpr{Ref: []string{"T2"}}, Attrs: []Attr{{Key: "body", Tag: true}}}}
			}
			a.Eps = []*Endpoint{e}
			out = append(out, Labeled{fmt.Sprintf("L4/path%d/q%d", pi, qi), &Spec{Apps: []*App{a}}})
			n++
		}
	}
	// every verb on one path, in one app (several methods under one path: separate path blocks)
	for _, m := range methods {
		a := &App{Name: []string{"A"}, Types: localTypes()}
		for _, m2 := range methods {
			if m2 == m {
				continue
			}
			a.Eps = append(a.Eps, &Endpoint{Kind: "rest", Method: m2, Path: []PathSeg{{Static: "other"}}})
		}
		a.Eps = append(a.Eps, &Endpoint{Kind: "rest", Method: m, Path: []PathSeg{{Static: "a"}, vars[0]}, Query: queries[2], Attrs: []Attr{{Key: "own", Tag: true}}})
		out = append(out, Labeled{"L4/verbs/" + m, &Spec{Apps: []*App{a}}})
	}
	return out
}

// L6: value boundaries.
func L6() []Labeled {
	var out []Labeled
	vals := []string{"0", "1", "255", "256", "65535", "65536", "2147483647", "2147483648", "4294967296", "9223372036854775807"}
	for _, v := range vals {
		a := &App{Name: []string{"A"}, Types: []*TypeDecl{{Kind: "enum", Name: "E", Items: []EnumItem{{"LOW", "1"}, {"X", v}, {"HIGH", "7"}}}}}
		out = append(out, Labeled{"L6/enum/" + v, &Spec{Apps: []*App{a}}})
		if v != "0" {
			a2 := &App{Name: []string{"A"}, Types: []*TypeDecl{{Kind: "type", Name: "T", Fields: []*Field{
				{Name: "a", T: TypeExpr{Prim: "string", Size: "(" + v + ")"}},
				{Name: "b", T: TypeExpr{Prim: "string", Size: "(1.." + v + ")"}},
				{Name: "c", T: TypeExpr{Prim: "int", Size: "(" + v + "..)"}},
			}}}}
			out = append(out, Labeled{"L6/size/" + v, &Spec{Apps: []*App{a2}}})
		}
	}
	return out
}

// Members for L2 / C04: one construct per listener entry point.
func MemberAlphabet() []func(a *App) {
	return []func(a *App){
		func(a *App) {
			a.Types = append(a.Types, &TypeDecl{Kind: "type", Name: "T", Fields: []*Field{{Name: "a", T: prim("int")}, {Name: "b", T: TypeExpr{Prim: "string", Opt: true}}, {Name: "c", T: TypeExpr{RefApp: []string{"Other"}, Ref: []string{"U"}, Wrap: "sequence"}}}})
		},
		func(a *App) {
			a.Types = append(a.Types, &TypeDecl{Kind: "table", Name: "Tb", Fields: []*Field{{Name: "id", T: prim("int"), Attrs: []Attr{{Key: "pk", Tag: true}}}, {Name: "v", T: TypeExpr{Prim: "string", Size: "(10)"}}}})
		},
		func(a *App) {
			a.Types = append(a.Types, &TypeDecl{Kind: "enum", Name: "E", Items: []EnumItem{{"A", "1"}, {"B", "2"}}})
		},
		func(a *App) {
			a.Types = append(a.Types, &TypeDecl{Kind: "alias", Name: "L", Alias: &TypeExpr{Prim: "string", Wrap: "sequence"}})
		},
		func(a *App) {
			a.Types = append(a.Types, &TypeDecl{Kind: "union", Name: "Un", Members: []TypeExpr{prim("int"), prim("string")}})
		},
		func(a *App) {
			a.Eps = append(a.Eps, &Endpoint{Kind: "simple", Name: "Ep", Long: "long ep", Params: []*Param{{Name: "p", T: prim("int")}}, Attrs: []Attr{{Key: "x", Tag: true}},
				Stmts: []*Stmt{{Kind: "action", Text: "one"}, {Kind: "if", Text: "c", Kids: []*Stmt{{Kind: "call", Target: []string{"Other"}, Endpoint: "Ep2"}}}, {Kind: "else", Kids: []*Stmt{{Kind: "ret", Text: "error"}}}, {Kind: "ret", Text: "ok <: string"}}})
		},
		func(a *App) {
			a.Eps = append(a.Eps, &Endpoint{Kind: "simple", Name: "Second", Stmts: []*Stmt{{Kind: "oneof", Cases: []*Stmt{{Kind: "case", Text: "c1", Kids: []*Stmt{{Kind: "action", Text: "x"}}}, {Kind: "case", Text: "c2", Kids: []*Stmt{{Kind: "action", Text: "y"}}}}}}})
		},
		func(a *App) {
			a.Eps = append(a.Eps, &Endpoint{Kind: "rest", Method: "GET", Path: []PathSeg{{Static: "a", Attrs: []Attr{{Key: "r", Tag: true}}}, {Var: "id", VarT: &TypeExpr{Prim: "int"}}}, Query: []QueryParam{{Name: "q", T: prim("string")}},
				Stmts: []*Stmt{{Kind: "ret", Text: "ok <: string"}}})
		},
		func(a *App) {
			a.Eps = append(a.Eps, &Endpoint{Kind: "rest", Method: "POST", Path: []PathSeg{{Static: "a"}}, Params: []*Param{{Name: "body", T: prim("string"), Attrs: []Attr{{Key: "body", Tag: true}}}},
				Stmts: []*Stmt{{Kind: "foreach", Text: "x", Kids: []*Stmt{{Kind: "action", Text: "w"}}}}})
		},
		func(a *App) {
			a.Eps = append(a.Eps, &Endpoint{Kind: "event", Name: "Ev", Params: []*Param{{Name: "p", T: prim("int")}}, Stmts: []*Stmt{{Kind: "action", Text: "e"}}})
		},
		func(a *App) {
			a.Eps = append(a.Eps, &Endpoint{Kind: "subscribe", Source: []string{"Pub"}, Name: "Topic", Stmts: []*Stmt{{Kind: "action", Text: "s"}}})
		},
		func(a *App) {
			a.Eps = append(a.Eps, &Endpoint{Kind: "rest", Method: "PUT", Path: []PathSeg{{Static: "x"}, {Var: "key", VarT: &TypeExpr{RefApp: []string{"Other"}, Ref: []string{"U"}}}},
				Params: []*Param{{Name: "hdr", T: prim("string"), Attrs: []Attr{{Key: "header", Tag: true}}}}, Stmts: []*Stmt{{Kind: "action", Text: "upd"}}})
		},
		func(a *App) { a.Mixins = append(a.Mixins, []string{"Mix"}) },
		func(a *App) { a.Annos = append(a.Annos, Attr{Key: "anno", Val: Str("v")}) },
		func(a *App) {
			a.Eps = append(a.Eps, &Endpoint{Kind: "simple", Name: "Loops", Stmts: []*Stmt{{Kind: "while", Text: "c", Kids: []*Stmt{{Kind: "action", Text: "a"}}}, {Kind: "loopn", Text: "3", Kids: []*Stmt{{Kind: "action", Text: "b"}}}, {Kind: "group", Text: "g", Kids: []*Stmt{{Kind: "selfcall", Endpoint: "Loops"}}}}})
		},
	}
}

func mixApp() *App {
	return &App{Name: []string{"Mix"}, Attrs: []Attr{{Key: "abstract", Tag: true}}, Eps: []*Endpoint{{Kind: "simple", Name: "Shared"}}}
}

// L2: all ordered pairs of member constructs as siblings in one app, and in two apps.
func L2() []Labeled {
	var out []Labeled
	ms := MemberAlphabet()
	for i := range ms {
		for j := range ms {
			if i == j {
				continue
			}
			a := &App{Name: []string{"Ns", "A"}, Long: "long app"}
			ms[i](a)
			ms[j](a)
			// the renderer emits mixins, then types, then endpoints; member order within each class is i, j
			out = append(out, Labeled{fmt.Sprintf("L2/sib/%d-%d", i, j), &Spec{Apps: append([]*App{a, mixApp()}, supportApps()...)}})
			if i < j {
				a1 := &App{Name: []string{"A1"}}
				a2 := &App{Name: []string{"A2"}}
				ms[i](a1)
				ms[j](a2)
				out = append(out, Labeled{fmt.Sprintf("L2/apps/%d-%d", i, j), &Spec{Apps: append([]*App{a1, a2, mixApp()}, supportApps()...)}})
			}
		}
	}
	// several methods in ONE path block, with and without query parameters, in every order of three methods, and
	// a method of the enclosing block after a nested block
	{
		mk := func(method string, q []QueryParam, sibling bool, path ...PathSeg) *Endpoint {
			return &Endpoint{Kind: "rest", Method: method, Path: path, Query: q, Sibling: sibling, Stmts: []*Stmt{{Kind: "action", Text: "x"}}}
		}
		qs := map[string][]QueryParam{
			"GET":    {{Name: "limit", T: prim("int")}, {Name: "offset", T: TypeExpr{Prim: "int", Opt: true}}},
			"POST":   nil,
			"DELETE": {{Name: "force", T: prim("bool")}},
		}
		for pi, perm := range Permutations(3) {
			ms := []string{"GET", "POST", "DELETE"}
			var eps []*Endpoint
			for k, x := range perm {
				m := ms[x]
				eps = append(eps, mk(m, qs[m], k > 0, PathSeg{Static: "orders"}))
			}
			out = append(out, Labeled{fmt.Sprintf("L2/siblings/%d", pi), &Spec{Apps: append([]*App{{Name: []string{"A"}, Eps: eps}}, supportApps()...)}})
		}
	}
	// publisher / subscriber declaration orders: the event with a statement body, one or two subscribers,
	// each before or after the publisher
	{
		pub := func(body bool) *App {
			e := &Endpoint{Kind: "event", Name: "Topic", Attrs: []Attr{{Key: "evtag", Tag: true}, {Key: "k", Val: Str("v")}}}
			if body {
				e.Stmts = []*Stmt{{Kind: "action", Text: "announce"}, {Kind: "call", Target: []string{"Other"}, Endpoint: "Ep2"}}
			}
			return &App{Name: []string{"Pub"}, Eps: []*Endpoint{e}}
		}
		sub := func(n string) *App {
			return &App{Name: []string{n}, Eps: []*Endpoint{{Kind: "subscribe", Source: []string{"Pub"}, Name: "Topic", Stmts: []*Stmt{{Kind: "action", Text: "got it"}}}}}
		}
		orders := [][]string{{"P", "S1"}, {"S1", "P"}, {"S1", "P", "S2"}, {"S1", "S2", "P"}, {"P", "S1", "S2"}}
		for oi, ord := range orders {
			var apps []*App
			for _, x := range ord {
				if x == "P" {
					apps = append(apps, pub(true))
				} else {
					apps = append(apps, sub(x))
				}
			}
			out = append(out, Labeled{fmt.Sprintf("L2/pubsub/%d", oi), &Spec{Apps: append(apps, supportApps()...)}})
		}
	}
	// names pool in every name position
	for ni, n := range []string{"Plain", "with space", "quo\"te", "co:lon", "Dotted.Name", "Ünï", "x-y", "_lead", "pct%off", "a%41b"} {
		a := &App{Name: []string{n}, Types: []*TypeDecl{{Kind: "type", Name: "T", Fields: []*Field{{Name: "f", T: prim("int")}}}}}
		out = append(out, Labeled{fmt.Sprintf("L2/name/app/%d", ni), &Spec{Apps: []*App{a}}})
		a = &App{Name: []string{"Ns", n, "Leaf"}, Eps: []*Endpoint{{Kind: "simple", Name: "Ep"}}}
		out = append(out, Labeled{fmt.Sprintf("L2/name/nsapp/%d", ni), &Spec{Apps: []*App{a}}})
		if n != "Dotted.Name" {
			a = &App{Name: []string{"A"}, Types: []*TypeDecl{{Kind: "type", Name: n, Fields: []*Field{{Name: "f", T: prim("int")}}}}}
			out = append(out, Labeled{fmt.Sprintf("L2/name/type/%d", ni), &Spec{Apps: []*App{a}}})
		}
		a = &App{Name: []string{"A"}, Types: []*TypeDecl{{Kind: "type", Name: "T", Fields: []*Field{{Name: n, T: prim("int")}}}}}
		out = append(out, Labeled{fmt.Sprintf("L2/name/field/%d", ni), &Spec{Apps: []*App{a}}})
		{
			a = &App{Name: []string{"A"}, Eps: []*Endpoint{{Kind: "simple", Name: n, Stmts: []*Stmt{{Kind: "action", Text: "x"}}}}}
			out = append(out, Labeled{fmt.Sprintf("L2/name/ep/%d", ni), &Spec{Apps: []*App{a}}})
		}
		if n != "Dotted.Name" && n != "with space" && n != "co:lon" && n != "quo\"te" {
			// REST positions: typed path variable, static segment, query parameter; endpoint parameter
			a = &App{Name: []string{"A"}, Eps: []*Endpoint{{Kind: "rest", Method: "GET", Path: []PathSeg{{Static: "things"}, {Var: n, VarT: &TypeExpr{Prim: "int"}}, {Static: "tail"}}, Stmts: []*Stmt{{Kind: "action", Text: "x"}}}}}
			out = append(out, Labeled{fmt.Sprintf("L2/name/pathvar/%d", ni), &Spec{Apps: []*App{a}}})
			a = &App{Name: []string{"A"}, Eps: []*Endpoint{{Kind: "rest", Method: "GET", Path: []PathSeg{{Static: n}, {Var: "id", VarT: &TypeExpr{Prim: "int"}}}, Stmts: []*Stmt{{Kind: "action", Text: "x"}}}}}
			out = append(out, Labeled{fmt.Sprintf("L2/name/static/%d", ni), &Spec{Apps: []*App{a}}})
			a = &App{Name: []string{"A"}, Eps: []*Endpoint{{Kind: "rest", Method: "GET", Path: []PathSeg{{Static: "q"}}, Query: []QueryParam{{Name: n, T: TypeExpr{Prim: "int"}}, {Name: "second", T: TypeExpr{Prim: "string", Opt: true}}}, Stmts: []*Stmt{{Kind: "action", Text: "x"}}}}}
			out = append(out, Labeled{fmt.Sprintf("L2/name/query/%d", ni), &Spec{Apps: []*App{a}}})
			a = &App{Name: []string{"A"}, Eps: []*Endpoint{{Kind: "simple", Name: "Ep", Params: []*Param{{Name: n, T: TypeExpr{Prim: "int"}}}, Stmts: []*Stmt{{Kind: "action", Text: "x"}}}}}
			out = append(out, Labeled{fmt.Sprintf("L2/name/param/%d", ni), &Spec{Apps: []*App{a}}})
		}
	}
	return out
}
