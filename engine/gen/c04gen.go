package gen

// C04Members: members of one application used by the split/joined differential check.
// Member i is a function that adds its declarations to an application block.
func C04Members() []func(a *App) {
	typeT := func(a *App) *TypeDecl { return findType(a, "T", "type") }
	tab := func(a *App) *TypeDecl { return findType(a, "Tb", "table") }
	return []func(a *App){
		// 0: a type with three fields
		func(a *App) {
			t := typeT(a)
			t.Attrs = append(t.Attrs, Attr{Key: "t0", Tag: true})
			t.Annos = append(t.Annos, Attr{Key: "owners", Val: Arr(Str("a"), Str("b"))}, Attr{Key: "note", Val: Str("n0")})
			t.Fields = append(t.Fields, &Field{Name: "a", T: prim("int")}, &Field{Name: "b", T: TypeExpr{Prim: "string", Opt: true}}, &Field{Name: "c", T: TypeExpr{RefApp: []string{"Other"}, Ref: []string{"U"}, Wrap: "sequence"}})
		},
		// 1: the same type re-opened with a fourth field
		func(a *App) {
			t := typeT(a)
			// header attributes of a re-opening block: a name/value pair, an array and a tag
			t.Attrs = append(t.Attrs, Attr{Key: "owner", Val: Str("crm")}, Attr{Key: "lst", Val: Arr(Str("x"), Str("y"))}, Attr{Key: "t1", Tag: true})
			t.Fields = append(t.Fields, &Field{Name: "d", T: TypeExpr{Prim: "decimal", Size: "(5.2)"}})
		},
		// 2: a table with a key
		func(a *App) {
			t := tab(a)
			t.Attrs = append(t.Attrs, Attr{Key: "sch", Val: Str("s")})
			t.Fields = append(t.Fields, &Field{Name: "id", T: prim("int"), Attrs: []Attr{{Key: "pk", Tag: true}}}, &Field{Name: "v", T: TypeExpr{Prim: "string", Size: "(10)"}})
		},
		// 3: the same table re-opened with a second key column
		func(a *App) {
			t := tab(a)
			t.Attrs = append(t.Attrs, Attr{Key: "tb", Tag: true}, Attr{Key: "part", Val: Str("p2")})
			t.Fields = append(t.Fields, &Field{Name: "k2", T: prim("int"), Attrs: []Attr{{Key: "pk", Tag: true}}}, &Field{Name: "w", T: prim("date")})
		},
		// 4: a simple endpoint with statements
		func(a *App) {
			a.Eps = append(a.Eps, &Endpoint{Kind: "simple", Name: "Ep", Params: []*Param{{Name: "p", T: prim("int")}},
				Stmts: []*Stmt{{Kind: "action", Text: "one"}, {Kind: "if", Text: "c", Kids: []*Stmt{{Kind: "call", Target: []string{"Other"}, Endpoint: "Ep2"}}}, {Kind: "ret", Text: "ok <: string"}}})
		},
		// 5: a REST subtree /a with two methods
		func(a *App) {
			a.Eps = append(a.Eps,
				&Endpoint{Kind: "rest", Method: "GET", Path: []PathSeg{{Static: "a", Attrs: []Attr{{Key: "r", Tag: true}}}}, Query: []QueryParam{{Name: "q", T: prim("string")}}, Stmts: []*Stmt{{Kind: "ret", Text: "ok <: string"}}},
				&Endpoint{Kind: "rest", Method: "POST", Path: []PathSeg{{Static: "a", Attrs: []Attr{{Key: "r", Tag: true}}}}, Params: []*Param{{Name: "body", T: prim("string"), Attrs: []Attr{{Key: "body", Tag: true}}}}, Stmts: []*Stmt{{Kind: "action", Text: "store"}}})
		},
		// 6: a second REST subtree under the same prefix
		func(a *App) {
			// the path variable is typed by a dotted reference: it must not end up as a field of whatever
			// type happens to be declared before it in the same block
			a.Eps = append(a.Eps, &Endpoint{Kind: "rest", Method: "GET", Path: []PathSeg{{Static: "a"}, {Var: "id", VarT: &TypeExpr{RefApp: []string{"Other"}, Ref: []string{"U"}}}}, Stmts: []*Stmt{{Kind: "action", Text: "fetch"}}})
		},
		// 7: an event and an enum
		func(a *App) {
			a.Eps = append(a.Eps, &Endpoint{Kind: "event", Name: "Ev", Stmts: []*Stmt{{Kind: "action", Text: "e"}}})
			a.Types = append(a.Types, &TypeDecl{Kind: "enum", Name: "E", Items: []EnumItem{{"A", "1"}, {"B", "2"}}})
		},
		// 9 (C08 only): the type re-opened once more, re-declaring two of its fields (a field declared n
		// times carries n locations)
		// (appended after member 8 below)
		// 8: a view-free alias and a union
		func(a *App) {
			a.Types = append(a.Types, &TypeDecl{Kind: "alias", Name: "L", Alias: &TypeExpr{Prim: "string", Wrap: "sequence"}}, &TypeDecl{Kind: "union", Name: "Un", Members: []TypeExpr{prim("int"), prim("string")}})
		},
		// 9: fields a and c of T declared again (c as a collection)
		func(a *App) {
			t := typeT(a)
			t.Fields = append(t.Fields, &Field{Name: "a", T: prim("int")}, &Field{Name: "c", T: TypeExpr{RefApp: []string{"Other"}, Ref: []string{"U"}, Wrap: "sequence"}}, &Field{Name: "b", T: TypeExpr{Prim: "string", Wrap: "set"}})
			// the array-valued and the string-valued annotation of the first block declared again
			t.Annos = append(t.Annos, Attr{Key: "owners", Val: Arr(Str("c"))}, Attr{Key: "note", Val: Str("n9")})
		},
	}
}

// SetPartitions enumerates all partitions of {0..n-1} into at most k non-empty blocks
// (blocks ordered by smallest element).
func SetPartitions(n, k int) [][][]int {
	var out [][][]int
	assign := make([]int, n)
	var rec func(i, used int)
	rec = func(i, used int) {
		if i == n {
			blocks := make([][]int, used)
			for e, b := range assign {
				blocks[b] = append(blocks[b], e)
			}
			out = append(out, blocks)
			return
		}
		for b := 0; b <= used && b < k; b++ {
			assign[i] = b
			nu := used
			if b == used {
				nu++
			}
			rec(i+1, nu)
		}
	}
	rec(0, 0)
	return out
}

func Permutations(n int) [][]int {
	var out [][]int
	var rec func(cur []int, used []bool)
	rec = func(cur []int, used []bool) {
		if len(cur) == n {
			out = append(out, append([]int{}, cur...))
			return
		}
		for i := 0; i < n; i++ {
			if !used[i] {
				used[i] = true
				rec(append(cur, i), used)
				used[i] = false
			}
		}
	}
	rec(nil, make([]bool, n))
	return out
}
