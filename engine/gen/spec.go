package gen

// Abstract specifications, the renderer (with recorded positions) and the intended summary.
// The summary is a sorted list of lines that say, at the level the property states it, what
// the text declares. It is computed from the abstract spec alone.

import (
	"fmt"
	"sort"
	"strings"
)

type AttrVal struct {
	S   string    // string value (when Arr == nil)
	Arr []AttrVal // array value (non-nil, possibly empty)
}

func Str(s string) AttrVal     { return AttrVal{S: s} }
func Arr(v ...AttrVal) AttrVal { return AttrVal{Arr: append([]AttrVal{}, v...)} }
func (v AttrVal) IsArr() bool  { return v.Arr != nil }
func (v AttrVal) Canon() string {
	if !v.IsArr() {
		return fmt.Sprintf("s:%q", v.S)
	}
	var p []string
	for _, e := range v.Arr {
		p = append(p, e.Canon())
	}
	return "a:[" + strings.Join(p, ",") + "]"
}
func (v AttrVal) Render() string {
	if !v.IsArr() {
		return fmt.Sprintf("%q", v.S)
	}
	var p []string
	for _, e := range v.Arr {
		p = append(p, e.Render())
	}
	return "[" + strings.Join(p, ", ") + "]"
}

// Attr is an attribute (Key=Val) or a tag (~Key).
type Attr struct {
	Key string
	Val AttrVal
	Tag bool
}

type TypeExpr struct {
	Prim   string   // native keyword, or "" for a reference
	RefApp []string // application parts of a reference ("" = local)
	Ref    []string // type path of a reference
	Wrap   string   // "", "set", "sequence"
	Opt    bool
	Size   string // "", "(n)", "(p.s)", "(a..b)", "(a..)"
}

type Field struct {
	Name  string
	T     TypeExpr
	Attrs []Attr
	// Annos are rendered as an indented "@k = v" block under the field.
	Annos []Attr
}

type TypeDecl struct {
	Kind    string // type, table, enum, alias, union
	Name    string
	Attrs   []Attr
	Annos   []Attr
	Fields  []*Field
	Items   []EnumItem
	Alias   *TypeExpr
	Members []TypeExpr
}

type EnumItem struct {
	Name string
	Val  string
}

type Param struct {
	Name  string
	T     TypeExpr
	Attrs []Attr
}

type QueryParam struct {
	Name  string
	T     TypeExpr // Prim or local ref; Opt allowed
	Curly bool     // q={Type}
}

type PathSeg struct {
	Static string
	Var    string    // {name} or {name <: type}
	VarT   *TypeExpr // nil = untyped
	Attrs  []Attr    // attributes on this path level
}

type Stmt struct {
	Kind string // action, quoted, doc, call, selfcall, restcall, ret, if, elseif, else, foreach, forin, loopn, while, until, alt, oneof, group
	Text string // action text / predicate / label / payload
	// call
	Target   []string
	Endpoint string
	Args     []string
	Attrs    []Attr
	Kids     []*Stmt // block body
	Cases    []*Stmt // oneof: each case is a Stmt{Kind:"case", Text:label, Kids}
}

type Endpoint struct {
	Kind   string // simple, rest, event, subscribe
	Name   string // simple/event name; subscribe: event name
	Long   string
	Params []*Param
	Attrs  []Attr
	Annos  []Attr
	Stmts  []*Stmt
	// rest
	Method string
	Path   []PathSeg
	Query  []QueryParam
	// subscribe
	Source []string
	// rest: Sibling = written as a further method inside the path block of the previous endpoint (same path)
	Sibling bool
}

type App struct {
	Name   []string
	Long   string
	Attrs  []Attr
	Annos  []Attr
	Mixins [][]string
	Types  []*TypeDecl
	Eps    []*Endpoint
}

type Spec struct {
	Apps []*App
}

// ---------------------------------------------------------------------------------------------
// Rendering

type Layout struct {
	Unit       string // indent unit: "  ", "    ", "\t"
	BlankLines bool   // blank line between members
	Comments   bool   // comment before members
}

var DefaultLayout = Layout{Unit: "    "}

type Pos struct{ Line, Col int } // zero-based

type Rendered struct {
	Text string
	// Positions: element key (same keys as the summary uses) -> start position of each declaration
	Pos map[string][]Pos
}

type renderer struct {
	b    strings.Builder
	line int
	col  int
	lay  Layout
	pos  map[string][]Pos
	// statements already on an event endpoint (delivery calls of subscriptions rendered earlier, earlier
	// bodies), by "App.Event": the statements of a body declared later are numbered after them
	evCount map[string]int
	stmtOff int
}

func (r *renderer) w(s string) {
	r.b.WriteString(s)
	for i := 0; i < len(s); i++ {
		if s[i] == '\n' {
			r.line++
			r.col = 0
		} else {
			r.col++
		}
	}
}
func (r *renderer) ind(n int) { r.w(strings.Repeat(r.lay.Unit, n)) }
func (r *renderer) mark(key string) {
	r.pos[key] = append(r.pos[key], Pos{r.line, r.col})
}

// EscName escapes a name for use in Sysl source (URL style).
func EscName(s string) string {
	var b strings.Builder
	for i := 0; i < len(s); i++ {
		c := s[i]
		switch {
		case c >= 'a' && c <= 'z', c >= 'A' && c <= 'Z', c >= '0' && c <= '9' && i > 0, c == '_', c == '-' && i > 0:
			b.WriteByte(c)
		default:
			fmt.Fprintf(&b, "%%%02X", c)
		}
	}
	return b.String()
}

func AppNameSrc(parts []string) string {
	var p []string
	for _, x := range parts {
		p = append(p, EscName(x))
	}
	return strings.Join(p, " :: ")
}

func AppKey(parts []string) string { return strings.Join(parts, " :: ") }

func renderAttrs(as []Attr) string {
	if len(as) == 0 {
		return ""
	}
	var p []string
	for _, a := range as {
		if a.Tag {
			p = append(p, "~"+a.Key)
		} else {
			p = append(p, a.Key+"="+a.Val.Render())
		}
	}
	return " [" + strings.Join(p, ", ") + "]"
}

func (t TypeExpr) Render() string {
	var s string
	if t.Prim != "" {
		s = t.Prim
	} else {
		if len(t.RefApp) > 0 {
			s = AppNameSrc(t.RefApp) + "."
		}
		var p []string
		for _, x := range t.Ref {
			p = append(p, EscName(x))
		}
		s += strings.Join(p, ".")
	}
	s += t.Size
	switch t.Wrap {
	case "set":
		s = "set of " + s
	case "sequence":
		s = "sequence of " + s
	}
	if t.Opt {
		s += "?"
	}
	return s
}

func (r *renderer) annos(depth int, key string, as []Attr) {
	for _, a := range as {
		r.ind(depth)
		r.mark(key + " attr " + a.Key)
		if !a.Val.IsArr() && strings.Contains(a.Val.S, "\n") {
			r.w("@" + a.Key + " =:\n")
			for _, l := range strings.Split(a.Val.S, "\n") {
				r.ind(depth + 1)
				r.w("| " + l + "\n")
			}
			continue
		}
		r.w("@" + a.Key + " = " + a.Val.Render() + "\n")
	}
}

func (r *renderer) member(depth int) {
	if r.lay.BlankLines {
		r.w("\n")
	}
	if r.lay.Comments {
		r.ind(depth)
		r.w("# comment\n")
	}
}

func Render(s *Spec, lay Layout) Rendered {
	if lay.Unit == "" {
		lay.Unit = "    "
	}
	r := &renderer{lay: lay, pos: map[string][]Pos{}}
	for _, a := range s.Apps {
		r.app(a)
	}
	return Rendered{Text: r.b.String(), Pos: r.pos}
}

// RenderApp renders one application block (used by C04 to split declarations).
func RenderApps(apps []*App, lay Layout) Rendered { return Render(&Spec{Apps: apps}, lay) }

func (r *renderer) app(a *App) {
	ak := "app " + AppKey(a.Name)
	r.member(0)
	r.mark(ak)
	r.w(AppNameSrc(a.Name))
	if a.Long != "" {
		r.w(fmt.Sprintf(" %q", a.Long))
	}
	r.w(renderAttrs(a.Attrs))
	r.w(":\n")
	r.annos(1, ak, a.Annos)
	n := 0
	for _, m := range a.Mixins {
		r.ind(1)
		r.w("-|> " + AppNameSrc(m) + "\n")
		n++
	}
	for _, t := range a.Types {
		r.typeDecl(a, t)
		n++
	}
	for _, e := range a.Eps {
		r.endpoint(a, e)
		n++
	}
	if n == 0 {
		r.ind(1)
		r.w("...\n")
	}
}

func (r *renderer) typeDecl(a *App, t *TypeDecl) {
	tk := "type " + AppKey(a.Name) + "." + t.Name
	r.member(1)
	r.ind(1)
	r.mark(tk)
	r.w("!" + t.Kind + " " + EscName(t.Name) + renderAttrs(t.Attrs) + ":\n")
	r.annos(2, tk, t.Annos)
	switch t.Kind {
	case "type", "table":
		if len(t.Fields) == 0 {
			r.ind(2)
			r.w("...\n")
		}
		for _, f := range t.Fields {
			fk := "field " + AppKey(a.Name) + "." + t.Name + "." + f.Name
			r.ind(2)
			r.mark(fk)
			r.w(EscName(f.Name) + " <: " + f.T.Render() + renderAttrs(f.Attrs))
			if len(f.Annos) > 0 {
				r.w(":\n")
				r.annos(3, fk, f.Annos)
			} else {
				r.w("\n")
			}
		}
	case "enum":
		for _, it := range t.Items {
			r.ind(2)
			r.w(it.Name + ": " + it.Val + "\n")
		}
	case "alias":
		r.ind(2)
		r.w(t.Alias.Render() + "\n")
	case "union":
		for _, m := range t.Members {
			r.ind(2)
			r.w(m.Render() + "\n")
		}
	}
}

func RestPath(segs []PathSeg) string {
	var b strings.Builder
	for _, s := range segs {
		b.WriteString("/")
		if s.Var != "" {
			b.WriteString("{" + s.Var + "}")
		} else {
			b.WriteString(s.Static)
		}
	}
	return b.String()
}

func (e *Endpoint) Key() string {
	switch e.Kind {
	case "rest":
		return e.Method + " " + RestPath(e.Path)
	case "subscribe":
		return AppKey(e.Source) + " -> " + e.Name
	}
	return e.Name
}

func renderParams(ps []*Param) string {
	if len(ps) == 0 {
		return ""
	}
	var p []string
	for _, x := range ps {
		p = append(p, EscName(x.Name)+" <: "+x.T.Render()+renderAttrs(x.Attrs))
	}
	return " (" + strings.Join(p, ", ") + ")"
}

func (r *renderer) endpoint(a *App, e *Endpoint) {
	ek := "ep " + AppKey(a.Name) + "." + e.Key()
	r.member(1)
	depth := 1
	switch e.Kind {
	case "simple":
		r.ind(1)
		r.mark(ek)
		r.w(EscName(e.Name))
		if e.Long != "" {
			r.w(fmt.Sprintf(" %q", e.Long))
		}
		r.w(renderParams(e.Params) + renderAttrs(e.Attrs) + ":\n")
	case "event":
		r.ind(1)
		r.mark(ek)
		r.w("<-> " + EscName(e.Name) + renderParams(e.Params) + renderAttrs(e.Attrs) + ":\n")
	case "subscribe":
		r.ind(1)
		r.mark(ek)
		r.w(AppNameSrc(e.Source) + " -> " + EscName(e.Name) + renderAttrs(e.Attrs) + ":\n")
	case "rest":
		// one nesting level per path segment (a sibling method reuses the block of the endpoint before it)
		for i, s := range e.Path {
			if e.Sibling {
				break
			}
			r.ind(1 + i)
			r.w("/")
			if s.Var != "" {
				if s.VarT != nil {
					// names are URL-escaped in the source (the grammar takes no escapes in an untyped {name})
					r.w("{" + EscName(s.Var) + " <: " + s.VarT.Render())
				} else {
					r.w("{" + s.Var)
				}
				r.w("}")
			} else {
				r.w(EscName(s.Static))
			}
			r.w(renderAttrs(s.Attrs) + ":\n")
		}
		depth = 1 + len(e.Path)
		r.ind(depth)
		r.mark(ek)
		r.w(e.Method + renderParams(e.Params))
		if len(e.Query) > 0 {
			var q []string
			for _, x := range e.Query {
				v := x.T.Render()
				if x.Curly {
					v = "{" + strings.TrimSuffix(v, "?") + "}"
					if x.T.Opt {
						v += "?"
					}
				}
				// the query-name token takes no '-': escape it too
				q = append(q, strings.ReplaceAll(EscName(x.Name), "-", "%2D")+"="+v)
			}
			r.w(" ?" + strings.Join(q, "&"))
		}
		r.w(renderAttrs(e.Attrs) + ":\n")
	}
	r.annos(depth+1, ek, e.Annos)
	if len(e.Stmts) == 0 {
		r.ind(depth + 1)
		r.w("...\n")
	}
	if r.evCount == nil {
		r.evCount = map[string]int{}
	}
	r.stmtOff = 0
	switch e.Kind {
	case "event":
		key := AppKey(a.Name) + "." + e.Name
		r.stmtOff = r.evCount[key]
		r.evCount[key] += len(e.Stmts)
	case "subscribe":
		r.evCount[AppKey(e.Source)+"."+e.Name]++
	}
	r.stmts(ek, "", depth+1, e.Stmts)
	r.stmtOff = 0
}

func (r *renderer) stmts(ek, prefix string, depth int, ss []*Stmt) {
	for i, s := range ss {
		p := fmt.Sprintf("%s%d", prefix, i)
		if prefix == "" {
			p = fmt.Sprint(i + r.stmtOff)
		}
		r.ind(depth)
		r.mark("stmt " + strings.TrimPrefix(ek, "ep ") + " " + p)
		at := renderAttrs(s.Attrs)
		block := func(head string) {
			r.w(head + at + ":\n")
			if len(s.Kids) == 0 {
				r.ind(depth + 1)
				r.w("...\n")
			}
			r.stmts(ek, p+".", depth+1, s.Kids)
		}
		switch s.Kind {
		case "action":
			r.w(s.Text + at + "\n")
		case "quoted":
			r.w(fmt.Sprintf("%q", s.Text) + at + "\n")
		case "doc":
			r.w("| " + s.Text + "\n")
		case "call":
			r.w(AppNameSrc(s.Target) + " <- " + EscName(s.Endpoint) + renderArgs(s.Args) + at + "\n")
		case "restcall":
			r.w(AppNameSrc(s.Target) + " <- " + s.Endpoint + at + "\n")
		case "selfcall":
			r.w(". <- " + EscName(s.Endpoint) + renderArgs(s.Args) + at + "\n")
		case "ret":
			r.w("return " + s.Text + at + "\n")
		case "if":
			block("if " + s.Text)
		case "elseif":
			block("else if " + s.Text)
		case "else":
			block("else")
		case "foreach":
			block("for each " + s.Text)
		case "forin":
			block("for " + s.Text)
		case "loopn":
			block("loop " + s.Text)
		case "while":
			block("while " + s.Text)
		case "until":
			block("until " + s.Text)
		case "alt":
			block("alt " + s.Text)
		case "group":
			block(s.Text)
		case "oneof":
			r.w("one of" + at + ":\n")
			for ci, c := range s.Cases {
				r.ind(depth + 1)
				r.w(c.Text + ":\n")
				if len(c.Kids) == 0 {
					r.ind(depth + 2)
					r.w("...\n")
				}
				r.stmts(ek, fmt.Sprintf("%s.c%d.", p, ci), depth+2, c.Kids)
			}
		default:
			panic("gen: unknown stmt kind " + s.Kind)
		}
	}
}

func renderArgs(a []string) string {
	if len(a) == 0 {
		return ""
	}
	return " (" + strings.Join(a, ", ") + ")"
}

// ---------------------------------------------------------------------------------------------
// Intended summary

type Summary []string

func (s Summary) Sorted() Summary {
	c := append(Summary{}, s...)
	sort.Strings(c)
	return c
}

var primKind = map[string]string{
	"int": "INT", "int32": "INT", "int64": "INT", "float": "FLOAT", "float32": "FLOAT", "float64": "FLOAT",
	"decimal": "DECIMAL", "string": "STRING", "bool": "BOOL", "date": "DATE", "datetime": "DATETIME", "bytes": "BYTES", "any": "ANY",
}

// TypeCanon: canonical description of a type expression as the summary states it.
// ctxApp is the application the expression is written in.
func (t TypeExpr) Canon() string {
	var s string
	if t.Prim != "" {
		s = primKind[t.Prim]
		switch t.Prim {
		case "int32":
			s += " bits=32 range=-2147483648..2147483647"
		case "int64":
			s += " bits=64 range=-9223372036854775808..9223372036854775807"
		case "float32":
			s += " bits=32"
		case "float64":
			s += " bits=64"
		}
	} else {
		s = "ref(" + AppKey(t.RefApp) + ";" + strings.Join(t.Ref, ".") + ")"
	}
	if t.Size != "" {
		z := strings.Trim(t.Size, "()")
		switch {
		case strings.Contains(z, ".."):
			p := strings.SplitN(z, "..", 2)
			s += " len=" + orZero(p[0]) + ".." + orZero(p[1])
		case strings.Contains(z, "."):
			p := strings.SplitN(z, ".", 2)
			s += " len=0.." + p[0] + " precision=" + p[0] + " scale=" + p[1]
		default:
			s += " len=0.." + z
		}
	}
	switch t.Wrap {
	case "set":
		s = "set of " + s
	case "sequence":
		s = "sequence of " + s
	}
	if t.Opt {
		s += " opt"
	}
	return s
}

func orZero(s string) string {
	s = strings.TrimLeft(s, "0")
	if s == "" {
		return "0"
	}
	return s
}

func attrLines(prefix string, inline, annos []Attr) []string {
	var out []string
	seenKey := map[string]bool{}
	all := append(append([]Attr{}, inline...), annos...)
	for _, a := range all {
		if a.Tag {
			out = append(out, prefix+" tag "+a.Key)
			continue
		}
		if seenKey[a.Key] {
			continue
		}
		seenKey[a.Key] = true
		v := a.Val
		if !v.IsArr() && strings.Contains(v.S, "\n") {
			v = Str(v.S + "\n") // multi-line annotation: every '| line' contributes the line and a newline
		}
		out = append(out, prefix+" attr "+a.Key+"="+v.Canon())
	}
	return out
}

// Intended computes the summary the text declares.
func Intended(s *Spec) Summary {
	var out Summary
	add := func(f string, a ...interface{}) { out = append(out, fmt.Sprintf(f, a...)) }
	seenApp := map[string]bool{}
	implied := map[string][]string{} // publisher app -> lines
	impliedCount := map[string]int{}
	for _, a := range s.Apps {
		an := AppKey(a.Name)
		if !seenApp[an] {
			seenApp[an] = true
			add("app %s", an)
		}
		if a.Long != "" {
			add("app %s long=%q", an, a.Long)
		}
		out = append(out, attrLines("app "+an, a.Attrs, a.Annos)...)
		for _, m := range a.Mixins {
			add("app %s mixin %s", an, AppKey(m))
		}
		if len(a.Mixins)+len(a.Types)+len(a.Eps) == 0 {
			add("ep %s....", an) // a bare '...' member is the placeholder endpoint named "..."
		}
		for _, t := range a.Types {
			tn := an + "." + t.Name
			switch t.Kind {
			case "type":
				add("type %s kind=tuple", tn)
			case "table":
				add("type %s kind=relation", tn)
				for _, f := range t.Fields {
					for _, at := range f.Attrs {
						if at.Tag && at.Key == "pk" {
							add("type %s pk %s", tn, f.Name)
						}
					}
				}
			case "enum":
				add("type %s kind=enum", tn)
				for _, it := range t.Items {
					add("type %s item %s=%s", tn, it.Name, orZero(it.Val))
				}
			case "alias":
				add("type %s kind=alias %s", tn, t.Alias.Canon())
			case "union":
				add("type %s kind=union", tn)
				for i, m := range t.Members {
					add("type %s member %d %s", tn, i, m.Canon())
				}
			}
			out = append(out, attrLines("type "+tn, t.Attrs, t.Annos)...)
			for _, f := range t.Fields {
				add("field %s.%s %s", tn, f.Name, f.T.Canon())
				out = append(out, attrLines("field "+tn+"."+f.Name, f.Attrs, f.Annos)...)
			}
		}
		for _, e := range a.Eps {
			en := an + "." + e.Key()
			add("ep %s", en)
			if e.Long != "" {
				add("ep %s long=%q", en, e.Long)
			}
			inherited := []Attr{}
			if e.Kind == "rest" {
				inherited = append(inherited, Attr{Key: "rest", Tag: true})
				for _, sgm := range e.Path {
					inherited = append(inherited, sgm.Attrs...)
				}
				add("ep %s rest method=%s path=%s", en, e.Method, RestPath(e.Path))
				for i, q := range e.Query {
					add("ep %s query %d %s %s", en, i, q.Name, q.T.Canon())
				}
				i := 0
				for _, sgm := range e.Path {
					if sgm.Var != "" {
						t := "STRING"
						if sgm.VarT != nil {
							vt := *sgm.VarT
							if len(vt.RefApp) > 0 {
								// a path variable typed App.Type is recorded as the path [App, Type] (documented in
								// ExitHttp_path_var_with_type): the application part becomes part of the path
								vt.Ref = append(append([]string{}, vt.RefApp...), vt.Ref...)
								vt.RefApp = nil
							}
							t = vt.Canon()
						}
						add("ep %s urlparam %d %s %s", en, i, sgm.Var, t)
						i++
					}
				}
			}
			out = append(out, attrLines("ep "+en, append(inherited, e.Attrs...), e.Annos)...)
			switch e.Kind {
			case "event":
				add("ep %s pubsub", en)
			case "subscribe":
				add("ep %s source=%s", en, AppKey(e.Source))
				src := AppKey(e.Source)
				idx := impliedCount[src+"."+e.Name]
				impliedCount[src+"."+e.Name]++
				implied[src] = append(implied[src],
					fmt.Sprintf("ep %s.%s", src, e.Name),
					fmt.Sprintf("ep %s.%s pubsub", src, e.Name),
					fmt.Sprintf("stmt %s.%s %d call %s <- %s", src, e.Name, idx, an, e.Key()))
			}
			for i, p := range e.Params {
				add("ep %s param %d %s %s", en, i, p.Name, p.T.Canon())
				for _, l := range attrLines(fmt.Sprintf("ep %s param %d", en, i), p.Attrs, nil) {
					out = append(out, l)
				}
			}
			if e.Kind == "event" && impliedCount[an+"."+e.Name] > 0 {
				// subscriptions compiled before this declaration already put their delivery calls on the
				// event: the body's statements follow them
				off := impliedCount[an+"."+e.Name]
				var own Summary
				stmtLines(&own, an, en, "", e.Stmts)
				pre := "stmt " + en + " "
				for _, l := range own {
					rest := strings.TrimPrefix(l, pre)
					j := 0
					for j < len(rest) && rest[j] >= '0' && rest[j] <= '9' {
						j++
					}
					var n int
					fmt.Sscan(rest[:j], &n)
					out = append(out, fmt.Sprintf("%s%d%s", pre, n+off, rest[j:]))
				}
			} else {
				stmtLines(&out, an, en, "", e.Stmts)
			}
			if e.Kind == "event" {
				impliedCount[an+"."+e.Name] += len(e.Stmts)
			}
			if len(e.Stmts) == 0 {
				add("stmt %s 0 action %q", en, "...")
			}
		}
	}
	for app, ls := range implied {
		if !seenApp[app] {
			seenApp[app] = true
			out = append(out, "app "+app)
		}
		out = append(out, ls...)
	}
	return dedupSorted(out)
}

func dedupSorted(in []string) Summary {
	sort.Strings(in)
	var out Summary
	for i, s := range in {
		if i > 0 && in[i-1] == s {
			continue
		}
		out = append(out, s)
	}
	return out
}

func stmtLines(out *Summary, an, en, prefix string, ss []*Stmt) {
	add := func(f string, a ...interface{}) { *out = append(*out, fmt.Sprintf(f, a...)) }
	for i, s := range ss {
		p := fmt.Sprintf("%s%d", prefix, i)
		kids := func() {
			stmtLines(out, an, en, p+".", s.Kids)
			if len(s.Kids) == 0 {
				add("stmt %s %s.0 action %q", en, p, "...")
			}
		}
		switch s.Kind {
		case "action":
			add("stmt %s %s action %q", en, p, s.Text)
		case "quoted":
			add("stmt %s %s action %q", en, p, fmt.Sprintf("%q", s.Text))
		case "doc":
			add("stmt %s %s action %q", en, p, "| "+s.Text)
		case "call", "restcall":
			add("stmt %s %s call %s <- %s%s", en, p, AppKey(s.Target), s.Endpoint, argCanon(s.Args))
		case "selfcall":
			add("stmt %s %s call %s <- %s%s", en, p, an, s.Endpoint, argCanon(s.Args))
		case "ret":
			// the payload of a return is free text up to the end of the line: attributes written
			// after it stay part of the payload (they are parsed later by consumers of the payload)
			add("stmt %s %s ret %q", en, p, s.Text+renderAttrs(s.Attrs))
			continue
		case "if":
			add("stmt %s %s cond %q", en, p, "if "+s.Text)
			kids()
		case "elseif":
			add("stmt %s %s cond %q", en, p, "else if "+s.Text)
			kids()
		case "else":
			add("stmt %s %s cond %q", en, p, "else")
			kids()
		case "foreach":
			add("stmt %s %s foreach %q", en, p, s.Text)
			kids()
		case "forin":
			add("stmt %s %s group %q", en, p, "for "+s.Text)
			kids()
		case "loopn":
			add("stmt %s %s group %q", en, p, "loop "+s.Text)
			kids()
		case "while":
			add("stmt %s %s loop WHILE %q", en, p, s.Text)
			kids()
		case "until":
			add("stmt %s %s loop UNTIL %q", en, p, s.Text)
			kids()
		case "alt":
			add("stmt %s %s group %q", en, p, "alt "+s.Text)
			kids()
		case "group":
			add("stmt %s %s group %q", en, p, s.Text)
			kids()
		case "oneof":
			add("stmt %s %s alt %d", en, p, len(s.Cases))
			for ci, c := range s.Cases {
				add("stmt %s %s.c%d choice %q", en, p, ci, c.Text)
				stmtLines(out, an, en, fmt.Sprintf("%s.c%d.", p, ci), c.Kids)
				if len(c.Kids) == 0 {
					add("stmt %s %s.c%d.0 action %q", en, p, ci, "...")
				}
			}
		}
		for _, l := range attrLines(fmt.Sprintf("stmt %s %s", en, p), s.Attrs, nil) {
			*out = append(*out, l)
		}
	}
}

func argCanon(a []string) string {
	if len(a) == 0 {
		return ""
	}
	return " (" + strings.Join(a, "; ") + ")"
}
