// hmrepro: shows that the lock-free hashmap used as the lexer-state registry
// (pkg/grammar/lexer_impl.go: ls / DeleteLexerState) can lose a live entry when other
// goroutines insert and delete concurrently: the same access pattern as concurrent
// compilations (Get-miss -> Set once, many Gets, Del), with pointer keys.
package main

import (
	"fmt"
	"os"
	"runtime"
	"sync"
	"sync/atomic"
	"unsafe"

	"github.com/cornelk/hashmap"
)

type state struct{ owner int }

func main() {
	m := &hashmap.HashMap{}
	var lost int64
	for _, procs := range []int{1, 4, 16} {
		runtime.GOMAXPROCS(procs)
		var wg sync.WaitGroup
		for g := 0; g < 64; g++ {
			wg.Add(1)
			go func(g int) {
				defer wg.Done()
				for r := 0; r < 200; r++ {
					obj := new([64]byte)
					key := uintptr(unsafe.Pointer(obj))
					st := &state{owner: g}
					m.Set(key, st)
					for j := 0; j < 200; j++ {
						v, ok := m.Get(key)
						if !ok || v.(*state) != st {
							atomic.AddInt64(&lost, 1)
							break
						}
						if j%50 == 0 {
							runtime.Gosched()
						}
					}
					m.Del(key)
					runtime.KeepAlive(obj)
				}
			}(g)
		}
		wg.Wait()
	}
	fmt.Println("lost live entries:", lost, "entries left:", m.Len())
	if lost > 0 || m.Len() != 0 {
		os.Exit(1)
	}
}
