//go:build verifov

// vrace: the C07 compile bodies free-running on many goroutines, built with -race.
// A monitor (it observes the executions the Go scheduler happens to produce), not an explorer.
package main

import (
	"fmt"
	"os"
	"runtime"
	"sync"

	"verif/engine/props"
)

// cold: concurrent compilations first, in a process that has compiled nothing yet (lazily
// filled shared caches are only written on first use), compared with sequential results afterwards.
func cold() {
	n := props.C07NumSources()
	runtime.GOMAXPROCS(16)
	got := make([][2]string, n)
	var wg sync.WaitGroup
	for g := 0; g < 2*n; g++ {
		wg.Add(1)
		go func(g int) {
			defer wg.Done()
			got[g%n][g/n] = props.C07Compile(g % n)
		}(g)
	}
	wg.Wait()
	bad := 0
	for i := 0; i < n; i++ {
		want := props.C07Compile(i)
		if got[i][0] != want || got[i][1] != want {
			bad++
			fmt.Printf("MISMATCH source %d in the cold concurrent start\n", i)
		}
	}
	if bad > 0 {
		os.Exit(1)
	}
	fmt.Printf("race monitor (cold start): %d concurrent compilations, no mismatch\n", 2*n)
}

func main() {
	if len(os.Args) > 1 && os.Args[1] == "cold" {
		cold()
		return
	}
	n := props.C07NumSources()
	seq := make([]string, n)
	for i := 0; i < n; i++ {
		seq[i] = props.C07Compile(i)
	}
	bad := 0
	var mu sync.Mutex
	for _, procs := range []int{1, 4, 16} {
		runtime.GOMAXPROCS(procs)
		var wg sync.WaitGroup
		for g := 0; g < 64; g++ {
			wg.Add(1)
			go func(g int) {
				defer wg.Done()
				for r := 0; r < 2; r++ {
					i := (g + r*3) % n
					if got := props.C07Compile(i); got != seq[i] {
						mu.Lock()
						bad++
						fmt.Printf("MISMATCH source %d under GOMAXPROCS=%d\n", i, procs)
						mu.Unlock()
					}
				}
			}(g)
		}
		wg.Wait()
	}
	if bad > 0 {
		os.Exit(1)
	}
	fmt.Println("race monitor: 384 concurrent compilations, no mismatch")
}
