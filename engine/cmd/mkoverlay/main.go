// mkoverlay generates the build overlay for the hooked binaries from /repo's current working tree:
//   - pkg/parse/parse.go with "sync" and errgroup swapped for the scheduler shims (AST rewrite)
//   - pkg/grammar/lexer_impl.go with scheduling points at token fetch / lexer-state create / delete
//   - the virtual packages pkg/verifrt{,/vsync,/vgroup}
//   - runtime/map.go with the map-iteration start behind a seam (MAPORD)
//
// usage: mkoverlay <repo> <verifdir> <outdir>
package main

import (
	"bytes"
	"encoding/json"
	"fmt"
	"go/ast"
	"go/format"
	"go/parser"
	"go/token"
	"os"
	"os/exec"
	"path/filepath"
	"strconv"
	"strings"
)

func die(f string, a ...interface{}) {
	fmt.Printf("HOOK-MISSING: "+f+"\n", a...)
	os.Exit(2)
}

func main() {
	repo, verif, out := os.Args[1], os.Args[2], os.Args[3]
	_ = os.MkdirAll(out, 0o755)
	replace := map[string]string{}

	// --- parse.go
	{
		src := filepath.Join(repo, "pkg/parse/parse.go")
		fset := token.NewFileSet()
		f, err := parser.ParseFile(fset, src, nil, parser.ParseComments)
		if err != nil {
			die("cannot parse %s: %v", src, err)
		}
		swapped := 0
		for _, im := range f.Imports {
			p, _ := strconv.Unquote(im.Path.Value)
			switch p {
			case "sync":
				im.Path.Value = strconv.Quote("github.com/anz-bank/sysl/pkg/verifrt/vsync")
				if im.Name == nil {
					im.Name = ast.NewIdent("sync")
				}
				swapped++
			case "golang.org/x/sync/errgroup":
				im.Path.Value = strconv.Quote("github.com/anz-bank/sysl/pkg/verifrt/vgroup")
				if im.Name == nil {
					im.Name = ast.NewIdent("errgroup")
				}
				swapped++
			}
		}
		if swapped != 2 {
			die("pkg/parse/parse.go: expected imports \"sync\" and errgroup, swapped %d", swapped)
		}
		var buf bytes.Buffer
		if err := format.Node(&buf, fset, f); err != nil {
			die("print parse.go: %v", err)
		}
		dst := filepath.Join(out, "parse.go.txt")
		must(os.WriteFile(dst, buf.Bytes(), 0o644))
		replace[src] = dst
	}

	// --- lexer_impl.go: textual insertion of yields (function heads located by AST)
	{
		src := filepath.Join(repo, "pkg/grammar/lexer_impl.go")
		b, err := os.ReadFile(src)
		if err != nil {
			die("%v", err)
		}
		s := string(b)
		ins := func(marker, add string) {
			if strings.Count(s, marker) != 1 {
				die("pkg/grammar/lexer_impl.go: marker %q found %d times", marker, strings.Count(s, marker))
			}
			s = strings.Replace(s, marker, marker+add, 1)
		}
		ins("func DeleteLexerState(l *SyslLexer) {\n", "\tverifrt.Yield(\"lexdel\", \"\")\n")
		// lexer-state creation: after the allocation line, or (if that line was rewritten) after the
		// registration in the shared registry
		if strings.Count(s, "\tstate := &lexerState{}\n") == 1 {
			ins("\tstate := &lexerState{}\n", "\tverifrt.Yield(\"lexnew\", \"\")\n")
		} else {
			ins("\tlexerStates.Store(key, state)\n", "\tverifrt.Yield(\"lexnew\", \"\")\n")
		}
		ins("func getNextToken(l *SyslLexer) antlr.Token {\n", "\tverifrt.Yield(\"tok\", \"\")\n")
		ins("import (\n", "\t\"github.com/anz-bank/sysl/pkg/verifrt\"\n")
		if strings.Contains(s, "hashmap.HashMap") {
			s += "\n// VerifLexerStates reports the number of live entries in the lexer-state registry.\nfunc VerifLexerStates() int { return lexerStates.Len() }\n"
		} else {
			s += "\n// VerifLexerStates reports the number of live entries in the lexer-state registry.\nfunc VerifLexerStates() int {\n\tn := 0\n\tlexerStates.Range(func(_, _ interface{}) bool { n++; return true })\n\treturn n\n}\n"
		}
		dst := filepath.Join(out, "lexer_impl.go.txt")
		must(os.WriteFile(dst, []byte(s), 0o644))
		replace[src] = dst
	}

	// --- virtual packages
	for _, m := range [][2]string{
		{"pkg/verifrt/verifrt.go", "rt/verifrt.go.txt"},
		{"pkg/verifrt/vsync/vsync.go", "rt/vsync/vsync.go.txt"},
		{"pkg/verifrt/vgroup/vgroup.go", "rt/vgroup/vgroup.go.txt"},
	} {
		replace[filepath.Join(repo, m[0])] = filepath.Join(verif, m[1])
	}

	// --- runtime/map.go
	{
		gorootB, err := exec.Command("go", "env", "GOROOT").Output()
		must(err)
		goroot := strings.TrimSpace(string(gorootB))
		src := filepath.Join(goroot, "src/runtime/map.go")
		b, err := os.ReadFile(src)
		must(err)
		s := string(b)
		marker := "\tr := uintptr(rand())\n"
		if strings.Count(s, marker) != 1 {
			die("runtime/map.go: iteration-start line found %d times (Go version changed?)", strings.Count(s, marker))
		}
		s = strings.Replace(s, marker, "\tr := uintptr(rand())\n\tif verifMapOn {\n\t\tr = verifMapSeed + verifMapK*verifSalt(getcallerpc())\n\t\tif h.count > verifMapMax {\n\t\t\tverifMapMax = h.count\n\t\t}\n\t\tverifMapIters++\n\t}\n", 1)
		s += `
// --- verification seam (MAPORD): the harness owns the map iteration start.
var (
	verifMapOn    bool
	verifMapSeed  uintptr
	verifMapK     uintptr
	verifMapMax   int
	verifMapIters int
)

func verifSalt(pc uintptr) uintptr {
	x := uint64(pc) * 0x9E3779B97F4A7C15
	return uintptr(x >> 40)
}

//go:linkname verifMapControl
func verifMapControl(on bool, seed, k uintptr) (maxCount int, iters int) {
	maxCount, iters = verifMapMax, verifMapIters
	verifMapOn, verifMapSeed, verifMapK = on, seed, k
	verifMapMax, verifMapIters = 0, 0
	return
}
`
		dst := filepath.Join(out, "runtime_map.go.txt")
		must(os.WriteFile(dst, []byte(s), 0o644))
		replace[src] = dst
	}

	j, _ := json.MarshalIndent(map[string]interface{}{"Replace": replace}, "", " ")
	must(os.WriteFile(filepath.Join(out, "overlay.json"), j, 0o644))
	fmt.Println("overlay written:", filepath.Join(out, "overlay.json"))
}

func must(err error) {
	if err != nil {
		fmt.Println("mkoverlay:", err)
		os.Exit(2)
	}
}
