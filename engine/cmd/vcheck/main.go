// vcheck: driver of all property checks.
//
//	vcheck <ID> --tier quick|thorough   run a check (master)
//	vcheck worker <ID>                  worker loop (internal)
//	vcheck replay <path>                re-execute one stored case
//	vcheck list
package main

import (
	"fmt"
	"os"
	"path/filepath"
	"syscall"

	"verif/engine/core"
	_ "verif/engine/props"
)

func main() {
	if len(os.Args) < 2 {
		fmt.Println("usage: vcheck <ID> --tier quick|thorough | worker <ID> | replay <path> | list")
		os.Exit(2)
	}
	self, err := os.Executable()
	if err != nil {
		fmt.Println(err)
		os.Exit(2)
	}
	if f, ok := core.Subcommands[os.Args[1]]; ok {
		f(os.Args[2:])
		return
	}
	switch os.Args[1] {
	case "list":
		for _, id := range core.IDs() {
			fmt.Println(id)
		}
	case "runcase":
		// debugging: vcheck runcase <ID> <kind> <data.json|->  runs one case in-process
		p := core.Get(os.Args[2])
		if p == nil {
			fmt.Println("property not in this binary; use vcheck-ov")
			os.Exit(2)
		}
		b, _ := os.ReadFile(os.Args[4])
		if wi, ok := p.(core.WorkerIniter); ok {
			wi.InitWorker()
		}
		o := p.Run(core.Case{Kind: os.Args[3], Data: b})
		fmt.Printf("%+v\n", o)
	case "worker":
		core.WorkerMain(os.Args[2])
	case "replay":
		os.Exit(core.ReplayMain(os.Args[2], self))
	default:
		id := os.Args[1]
		tier := os.Getenv("VERIF_TIER")
		for i := 2; i < len(os.Args); i++ {
			if os.Args[i] == "--tier" && i+1 < len(os.Args) {
				tier = os.Args[i+1]
			}
		}
		if tier == "" {
			tier = "quick"
		}
		if tier != "quick" && tier != "thorough" {
			fmt.Println("bad tier", tier)
			os.Exit(2)
		}
		p := core.Get(id)
		if p == nil {
			// hooked properties are only compiled into the overlay binary
			want := filepath.Join(filepath.Dir(self), "vcheck-ov")
			if _, err := os.Stat(want); err == nil && self != want {
				if err := syscall.Exec(want, append([]string{want}, os.Args[1:]...), os.Environ()); err != nil {
					fmt.Println("INFRA: cannot exec", want, err)
				}
			}
			fmt.Println("unknown property", id)
			os.Exit(2)
		}
		if bc, ok := p.(core.BinaryChooser); ok && bc.Binary() != "" {
			want := filepath.Join(filepath.Dir(self), "vcheck-"+bc.Binary())
			if self != want {
				if err := syscall.Exec(want, append([]string{want}, os.Args[1:]...), os.Environ()); err != nil {
					fmt.Println("INFRA: cannot exec", want, err)
					os.Exit(2)
				}
			}
		}
		os.Exit(core.MasterMain(id, tier, self))
	}
}
