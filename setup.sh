#!/bin/bash
# Build the framework from files on disk (offline) and warm the build cache.
set -eu
cd "$(dirname "$0")"
VERIF=$(pwd)
export GOFLAGS=-mod=mod GOPROXY=off GOSUMDB=off GOTOOLCHAIN=local
export GOCACHE=${VERIF_GOCACHE:-$VERIF/.cache/go-build}
mkdir -p "$VERIF/.cache/bin" "$VERIF/evidence" "$VERIF/replays"
( cd engine && cp /repo/go.sum go.sum && go build -o "$VERIF/.cache/bin/vcheck" ./cmd/vcheck )
( cd /repo && go build -o "$VERIF/.cache/bin/sysl" ./cmd/sysl )
if [ -x "$VERIF/buildov.sh" ]; then "$VERIF/buildov.sh"; fi
echo setup ok
