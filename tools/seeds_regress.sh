#!/bin/bash
# seeds_regress.sh [seed-dir-names...]: applies every stored seed to /repo in turn, runs the matching quick check,
# expects exit 1 with a VIOLATION line, and restores /repo. Prints one line per seed. Evidence files are restored afterwards.
cd /verif
git -C /repo diff --quiet || { echo "/repo working tree is not clean"; exit 2; }
SEEDS=${@:-$(ls seeded)}
for s in $SEEDS; do
  id=${s%-*}
  if grep -q '"obsolete"' /verif/seeded/$s/meta.json 2>/dev/null; then echo "$s obsolete (see meta.json)"; continue; fi
  git -C /repo apply /verif/seeded/$s/patch.diff 2>/dev/null || { echo "$s APPLY-FAILS"; continue; }
  timeout 2400 ./run.sh $id quick > /tmp/seedreg-$s.log 2>&1; rc=$?
  git -C /repo checkout -- .
  v=$(grep -c '^VIOLATION' /tmp/seedreg-$s.log)
  if [ $rc = 1 ] && [ $v -gt 0 ]; then echo "$s caught rc=$rc violations=$v $(grep -m1 'sig=' /tmp/seedreg-$s.log | cut -c1-100)"; else echo "$s MISSED rc=$rc"; fi
done
git checkout -- evidence 2>/dev/null
rm -rf replays/*/ 2>/dev/null
