#!/bin/bash
# mk_sandbox.sh: (re)creates /var/tmp/sb = a scratch worktree of /repo (HEAD) + a copy of the committed-or-not
# /verif tree whose paths point at that worktree. Seeds are applied there, so /repo stays clean while
# long checks run against it. Remove with: tools/mk_sandbox.sh rm
# Refresh the /verif copy of an existing sandbox (after editing checks) with: tools/mk_sandbox.sh sync
# (never rsync by hand: without the path rewrites below seeds_regress.sh would run the real /verif on the clean /repo).
SB=${SB:-/var/tmp/sb}
if [ "${1:-}" = sync ]; then
  [ -d $SB/repo ] || { echo "no sandbox at $SB"; exit 2; }
  git -C $SB/repo checkout -q -- .
else
if [ -d $SB/repo ]; then git -C /repo worktree remove --force $SB/repo 2>/dev/null; fi
rm -rf $SB
[ "${1:-}" = rm ] && { git -C /repo worktree prune; exit 0; }
mkdir -p $SB
git -C /repo worktree add -q --detach $SB/repo HEAD || exit 2
fi
rsync -a --exclude .cache --exclude replays --exclude .git /verif/ $SB/verif/
cd $SB/verif
sed -i "s#=> /repo#=> $SB/repo#" engine/go.mod
sed -i "s#/repo#$SB/repo#g" run.sh buildov.sh setup.sh engine/props/c03.go tools/seeds_regress.sh
sed -i "s#cd /verif#cd $SB/verif#; s#/verif/seeded#$SB/verif/seeded#" tools/seeds_regress.sh
grep -rn '"/repo' engine/props/*.go engine/core/*.go | head -3
echo "sandbox ready: VERIF_GOCACHE=/verif/.cache/go-build $SB/verif/tools/seeds_regress.sh"
