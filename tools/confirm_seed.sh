#!/bin/bash
# confirm_seed.sh <ID> <n> <demo-dest-dir-relative> <run-regex>
# Confirms an agent-made seeded defect in its scratch worktree, stores it under /verif/seeded/<ID>-<n>/, removes the worktree.
set -u
ID=$1; N=$2; DEST=$3; RX=$4
WT=/tmp/seed-$ID-$N; OUT=/verif/seeded/$ID-$N
export GOFLAGS=-mod=mod GOPROXY=off GOSUMDB=off GOTOOLCHAIN=local
mkdir -p $OUT
cp $WT/_out/patch.diff $OUT/patch.diff
DEMO=$(ls $WT/_out/*_test.go | head -1)
cp $DEMO $OUT/$(basename $DEMO)
cp $WT/_out/notes.md $OUT/notes.md
cd $WT
git checkout -q -- . ; git clean -fdq -e _out
git apply _out/patch.diff || { echo "patch does not apply"; exit 1; }
go build ./... || { echo "BUILD FAILS"; exit 1; }
go test -vet=off -count=1 -timeout 25m -json ./... 2>/dev/null | python3 -c "
import sys,json
fails=set()
for l in sys.stdin:
    try: e=json.loads(l)
    except: continue
    if e.get('Action')=='fail' and e.get('Test') and '/' not in e['Test']:
        fails.add(e['Package']+'::'+e['Test'])
base=set(open('/tmp/baseline_always_fail.txt').read().split())
extra=sorted(fails-base)
print('suite: failing=%d extra=%s'%(len(fails),extra))
open('$OUT/suite_result.txt','w').write('failing=%d\nextra_vs_baseline=%s\n'%(len(fails),extra))
"
cp $DEMO $DEST/zz_seed_demo_test.go
go test ${DEMOFLAGS:-} -vet=off -count=1 -run "$RX" ./$DEST/ > $OUT/demo_with.txt 2>&1; W=$?
git apply -R _out/patch.diff
go test ${DEMOFLAGS:-} -vet=off -count=1 -run "$RX" ./$DEST/ > $OUT/demo_without.txt 2>&1; WO=$?
rm -f $DEST/zz_seed_demo_test.go
echo "demo with change exit=$W (want !=0), without exit=$WO (want 0)"
cat $OUT/suite_result.txt
python3 - <<P
import json
json.dump({"property":"$ID","demo":"$(basename $DEMO)","demo_dir":"$DEST","demo_run":"go test -vet=off -count=1 -run '$RX' ./$DEST/","demo_exit_with_change":$W,"demo_exit_without_change":$WO,"suite":open("$OUT/suite_result.txt").read(),"needs":"see notes.md","ran":"tools/confirm_seed.sh: go build ./..., full suite -json vs baseline always-fail list, demo with and without patch"},open("$OUT/meta.json","w"),indent=1)
P
cd / ; git -C /repo worktree remove --force $WT
