#!/bin/bash
# runs thorough tier for the given ids sequentially with a time bound each (run from a vp run snapshot or /verif)
cd "$(dirname "$0")/.."
for id in "$@"; do
  s=$(date +%s)
  timeout 3000 ./run.sh $id thorough > thorough-$id.log 2>&1; rc=$?
  e=$(date +%s)
  echo "$id rc=$rc wall=$((e-s))s | $(grep "^$id tier" thorough-$id.log | cut -c1-140)"
  grep "^VIOLATION\|sig=\|ORACLE-GAP\|FLAKY" thorough-$id.log | cut -c1-300 | head -8
done
