#!/bin/bash
# usage: seed_prompt.sh C05 [n]  -> creates worktree and prints prompt
ID=$1; N=${2:-a}
WT=/tmp/seed-$ID-$N
git -C /repo worktree add -q --detach $WT HEAD 2>/dev/null
mkdir -p $WT/_out
cat <<P
You are helping test a verification harness for the Go project anz-bank/sysl (a system specification language toolchain). You have your own scratch git worktree of the repository at $WT (work ONLY there; never touch /repo or /verif, and do not read anything under /verif).

Here is a semantic property that the codebase is supposed to satisfy:

$(cat /tmp/seedprops/$ID.txt)

YOUR TASK: produce ONE realistic change (a "seeded defect") to the non-test Go source of anz-bank/sysl in $WT that BREAKS this property, while (1) the repository still compiles, and (2) the existing test suite still passes exactly as before. The change should look like a plausible regression a developer could introduce (a refactor slip, an off-by-one, a forgotten case, a lost copy, a reordered step, a dropped lock/claim, a wrong index), NOT a blatant sabotage, and must NOT edit any *_test.go file, golden file or testdata. Prefer a defect that needs something specific to manifest: a particular interleaving or completion order, a fault at a particular point, a multi-step sequence of operations, an unusual-but-valid input, a combination of two features, or two cooperating sites that each look fine alone -- not one that ordinary use would expose at once. ${EXTRA:-}

Also write a DEMONSTRATION: a small Go test file (or small Go program) that FAILS with your change applied and PASSES on the unmodified code, exercising the real code through public or package-internal APIs, deterministic (if a schedule matters, force it, e.g. with a custom reader that blocks/releases reads).

Environment facts: there is no network. Every shell call needs: export GOFLAGS=-mod=mod GOPROXY=off GOSUMDB=off GOTOOLCHAIN=local . The suite command is: cd $WT && go test -vet=off -count=1 -timeout 25m ./... (takes 3-6 minutes; 18 tests fail even on the unmodified tree because they need network/plantuml -- they are listed in /tmp/baseline_always_fail.txt as package::TestName; any OTHER failure means your change is not acceptable). While iterating, run only the relevant packages (e.g. go test -vet=off -count=1 ./pkg/parse/...), and run the full suite once at the end to confirm. Use 'go test -json' or plain output, your choice; report the list of failing tests.

Deliverables, all under $WT/_out/ :
  - patch.diff : 'git diff' of your source change only (must apply with 'git apply' on a clean checkout of the same commit; do not include the demo or _out in it)
  - demo_test.go (or demo/main.go) : the demonstration, plus a line at the top saying which directory it must be copied into and the exact command to run it
  - notes.md : what the defect is, which property clause it breaks, precisely what is needed for it to manifest (input shape / schedule / sequence), results of running the demo with and without the change, and the full-suite result (failing tests must be a subset of the 18 known ones).
Leave the worktree with your change applied. Do not commit. NEVER use git stash (stashes are shared between worktrees and other agents work in sibling worktrees): to test on unmodified code use "git diff > _out/patch.diff; git apply -R _out/patch.diff" and re-apply afterwards. Keep the change small (ideally < 15 lines). Finish by replying with a short summary (defect, trigger, files).
P
