#!/usr/bin/env python3
# usage: set_caught.py <seed-dir-name> <caught_by text>   (records which check catches a seed in its meta.json)
import json,sys
p='/verif/seeded/%s/meta.json'%sys.argv[1]
m=json.load(open(p)); m['caught_by']=sys.argv[2]
json.dump(m,open(p,'w'),indent=1,ensure_ascii=False); open(p,'a').write('\n')
