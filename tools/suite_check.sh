#!/bin/bash
# suite_check.sh [dir] [pkgs...] : run go test -json in dir (default /repo), print failures not in the baseline always-fail list
DIR=${1:-/repo}; shift
PKGS=${@:-./...}
export GOFLAGS=-mod=mod GOPROXY=off GOSUMDB=off GOTOOLCHAIN=local
if [ ! -f /tmp/baseline_always_fail.txt ]; then python3 -c "
import json;d=json.load(open('/root/.vp/BASELINE.json'));open('/tmp/baseline_always_fail.txt','w').write('\n'.join(d['always_fail'])+'\n')"; fi
cd $DIR && go test -vet=off -count=1 -timeout 25m -json $PKGS 2>/dev/null | python3 -c "
import sys,json
fails=set();passes=0;buildfail=set()
for l in sys.stdin:
    try: e=json.loads(l)
    except: continue
    if e.get('Action')=='fail' and e.get('Test') and '/' not in e['Test']: fails.add(e['Package']+'::'+e['Test'])
    if e.get('Action')=='fail' and not e.get('Test'): buildfail.add(e['Package'])
    if e.get('Action')=='pass' and e.get('Test') and '/' not in e['Test']: passes+=1
base=set(open('/tmp/baseline_always_fail.txt').read().split())
print('passed=%d failing=%d extra_vs_baseline=%s'%(passes,len(fails),sorted(fails-base)))
"
