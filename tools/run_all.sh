#!/bin/bash
# run every check's quick (or given tier) command, print exit code and wall time
TIER=${1:-quick}
cd /verif
for i in $(seq -w 1 20); do
  id=C$i
  s=$(date +%s)
  ./run.sh $id $TIER > /tmp/runall-$id.log 2>&1; rc=$?
  e=$(date +%s)
  echo "$id rc=$rc wall=$((e-s))s $(grep -c '^KNOWN-FINDING' /tmp/runall-$id.log) known $(grep -c '^VIOLATION' /tmp/runall-$id.log) viol | $(grep "^$id tier" /tmp/runall-$id.log | cut -c1-120)"
done
